"""C14: BIP39 mnemonics (buidl/mnemonic.py), the vendored PBKDF2 (buidl/pbkdf2.py, helper.hmac_sha512_kdf) and
HDPrivateKey.from_mnemonic (buidl/hd.py).

Deductive part: PBKDF2.read/__f against RFC 8018 F() with the PRF uninterpreted (small iteration counts, the
XOR fold is unrolled).  Everything that goes through words (strings) cannot be executed symbolically by the
engine; those contracts carry tiers=() (no deductive job) and are run concretely by the bounded companion."""
from .common import *  # noqa

import buidl.pbkdf2 as _P

# pbkdf2.py defines its own `callable(obj) = hasattr(obj, "__call__")`; the engine cannot decide hasattr on its
# bound-method value, so the helper is mapped to the engine's builtin `callable` (same meaning).
if hasattr(_P, "callable"):
    REG.intrinsics.setdefault(_P.callable, lambda m, a, k: m.b_callable(a, k))

SIZES = (128, 160, 192, 224, 256)
NO_SYMBOLIC = ()            # tiers=(): contract is about str values (words); bounded companion only

# ---------------------------------------------------------------------------------------- PBKDF2
PW = ("bytes", 0, 300)      # covers keys shorter than, equal to and longer than the HMAC block (64 / 128 bytes)


def _gen_pbkdf2(counts, sizes, hl):
    def gen(rng, tier):
        for c in counts:
            for n in sizes:
                for pl in (0, 1, hl - 1, hl, hl + 1, 2 * hl - 1, 2 * hl, 2 * hl + 1, 215):
                    yield {"passphrase": rand_bytes(rng, pl), "salt": rand_bytes(rng, rng.choice([0, 8, 16, 40])),
                           "iterations": c, "n": n}
        while True:
            yield {"passphrase": rand_bytes(rng, rng.randrange(0, 300)), "salt": rand_bytes(rng, rng.randrange(0, 64)),
                   "iterations": rng.choice(counts), "n": rng.choice(sizes)}
    return gen


def _fixed(gen, **consts):
    def g(rng, tier):
        for d in gen(rng, tier):
            d.update(consts)
            yield d
    return g


# read(n) == first n bytes of T_1 || T_2 || ..., T_i = U_1 ^ ... ^ U_c   (C14.3)
# c >= 2: every XOR-ed byte costs a range query `0 <= BV2Int(Int2BV(a) ^ Int2BV(b)) <= 255`.  Run alone
# (`python3-vt -m verif.one 'sha1_read#c2n20' 2000`) all obligations are ok (SHA-1 c=2: 27 s, SHA-1 c=3: 218 s,
# SHA-512 c=2: 260 s).  With all cores busy (load average 30) some of these queries come back `unknown`, which keeps
# an infeasible raising branch alive and shows up as a spurious failing obligation without model; a longer solver
# timeout (10 s) made that worse (20 min, more unknowns).  Verdicts must not flip with machine load, therefore:
# c=2 SHA-1 only in the thorough tier, the two slower instances not scheduled at all (NO_SYMBOLIC); all three still
# run concretely.
for _c, _n, _tiers in ((1, 64, ("quick", "thorough")), (1, 130, ("quick", "thorough")), (2, 64, NO_SYMBOLIC)):
    contract("verif.harness.mnemonic.pbkdf2_sha512_read#c%dn%d" % (_c, _n), props=("C14",),
             params={"passphrase": PW, "salt": "bytes", "iterations": ("const", _c), "n": ("const", _n)},
             ensures=["returns()", "len(result) == n",
                      "result == spec.mnemonic.pbkdf2_sha512(passphrase, salt, iterations, n)"],
             tiers=_tiers, timeout_ms=3000,
             gen=_fixed(_gen_pbkdf2((_c,), (_n,), 128), iterations=_c, n=_n))
for _c, _n, _tiers in ((1, 50, ("quick", "thorough")), (2, 20, ("thorough",)), (3, 20, NO_SYMBOLIC)):
    contract("verif.harness.mnemonic.pbkdf2_sha1_read#c%dn%d" % (_c, _n), props=("C14",),
             params={"passphrase": PW, "salt": "bytes", "iterations": ("const", _c), "n": ("const", _n)},
             ensures=["returns()", "len(result) == n",
                      "result == spec.mnemonic.pbkdf2_sha1(passphrase, salt, iterations, n)"],
             tiers=_tiers, timeout_ms=3000,
             gen=_fixed(_gen_pbkdf2((_c,), (_n,), 64), iterations=_c, n=_n))

# two consecutive reads continue the stream (buffer + block counter state of read)
contract("verif.harness.mnemonic.pbkdf2_sha512_read2#c1", props=("C14",),
         params={"passphrase": PW, "salt": "bytes", "iterations": ("const", 1), "n1": ("const", 10), "n2": ("const", 100)},
         ensures=["returns()", "result == spec.mnemonic.pbkdf2_sha512(passphrase, salt, 1, 110)"], timeout_ms=20000)


def _gen_read2(rng, tier):
    for c in (1, 2, 7):
        for n1, n2 in ((0, 0), (0, 64), (10, 100), (64, 64), (63, 1), (65, 63), (128, 1), (1, 200)):
            yield {"passphrase": rand_bytes(rng, rng.randrange(0, 200)), "salt": rand_bytes(rng, 12), "iterations": c, "n1": n1, "n2": n2}


contract("verif.harness.mnemonic.pbkdf2_sha512_read2", props=("C14",), tiers=NO_SYMBOLIC,
         params={"passphrase": PW, "salt": "bytes", "iterations": ("int", 1, 10), "n1": ("int", 0, 300), "n2": ("int", 0, 300)},
         ensures=["returns()", "result == spec.mnemonic.pbkdf2_sha512(passphrase, salt, iterations, n1 + n2)"],
         gen=_gen_read2,
         note="general iteration count: the XOR fold is unrolled per iteration and per byte; not attempted symbolically")

# any iteration count / length, concretely (incl. the 2048 rounds of BIP39)
contract("verif.harness.mnemonic.pbkdf2_sha512_read", props=("C14",), tiers=NO_SYMBOLIC,
         params={"passphrase": PW, "salt": "bytes", "iterations": ("int", 1, 4096), "n": ("int", 0, 400)},
         ensures=["returns()", "result == spec.mnemonic.pbkdf2_hmac('sha512', passphrase, salt, iterations, n)"],
         gen=_gen_pbkdf2((1, 2, 3, 10, 2048), (0, 1, 63, 64, 65, 128, 200), 128))
contract("verif.harness.mnemonic.pbkdf2_sha1_read", props=("C14",), tiers=NO_SYMBOLIC,
         params={"passphrase": PW, "salt": "bytes", "iterations": ("int", 1, 4096), "n": ("int", 0, 400)},
         ensures=["returns()", "result == spec.mnemonic.pbkdf2_hmac('sha1', passphrase, salt, iterations, n)"],
         gen=_gen_pbkdf2((1, 2, 5, 1000), (0, 1, 19, 20, 21, 40, 100), 64))


def _gen_kdf(rng, tier):
    w = None
    import verif.specs as s
    w = s.mnemonic.english_words()
    for k in range(12):
        words = " ".join(rng.choice(w) for _ in range((12, 15, 18, 21, 24)[k % 5]))
        pw = [b"", b"TREZOR", "päss".encode(), bytes([0xff, 0x00, 0x80]), rand_bytes(rng, 200)][k % 5]
        yield {"msg": words if k % 2 else words.encode(), "salt": b"mnemonic" + pw}
    for ln in (0, 1, 127, 128, 129, 255, 256):
        yield {"msg": rand_bytes(rng, ln), "salt": rand_bytes(rng, 9)}
    while True:
        yield {"msg": rand_bytes(rng, rng.randrange(0, 260)), "salt": rand_bytes(rng, rng.randrange(0, 50))}


# hmac_sha512_kdf == PBKDF2(HMAC-SHA512, 2048 rounds, 64 bytes); text passwords are UTF-8
contract("buidl.helper.hmac_sha512_kdf", props=("C14",), tiers=NO_SYMBOLIC,
         params={"msg": PW, "salt": "bytes"},
         ensures=["returns()", "len(result) == 64",
                  "result == spec.mnemonic.pbkdf2_sha512(spec.mnemonic.as_bytes(msg), spec.mnemonic.as_bytes(salt), 2048, 64)"],
         gen=_gen_kdf,
         note="2048 iterations x 64 byte-wise XORs cannot be unrolled by the engine; follows from read#c1..c3 by the "
              "(unverified) induction on the iteration count, and is compared concretely with the RFC 8018 spec")


# ---------------------------------------------------------------------------------------- entropy <-> words
def _boundary_entropies(nbytes):
    return [bytes(nbytes), b"\xff" * nbytes, b"\xaa" * nbytes, b"\x55" * nbytes, b"\x80" + bytes(nbytes - 1),
            bytes(nbytes - 1) + b"\x01", b"\x7f" * nbytes]


def _gen_entropy(rng, tier):
    for nb in SIZES:
        for e in _boundary_entropies(nb // 8):
            yield {"b": e, "num_bits": nb}
    while True:
        nb = rng.choice(SIZES)
        yield {"b": rand_bytes(rng, nb // 8), "num_bits": nb}


# C14.1: indices are the 11-bit groups of ENT || CS
contract("verif.harness.mnemonic.mnemonic_indices", props=("C14",), tiers=NO_SYMBOLIC,
         params={"b": ("bytes", 16, 32), "num_bits": ("choice", list(SIZES))},
         requires=["len(b) * 8 == num_bits"],
         ensures=["returns()", "result == spec.mnemonic.indices(b)", "len(result) == spec.mnemonic.word_count(num_bits)",
                  "spec.mnemonic.decode(result) == b"],
         gen=_gen_entropy, note="symbolic strings (word lookup and join)")
contract("verif.harness.mnemonic.mnemonic_roundtrip", props=("C14",), tiers=NO_SYMBOLIC,
         params={"b": ("bytes", 16, 32), "num_bits": ("choice", list(SIZES))},
         requires=["len(b) * 8 == num_bits"],
         ensures=["returns()", "result == b"],
         gen=_gen_entropy, note="symbolic strings")


def _gen_anylen(rng, tier):
    for nb in SIZES + (0, 8, 64, 127, 129, 512):
        for ln in (0, 1, 15, 16, 17, 20, 24, 28, 31, 32, 33, 64):
            yield {"b": rand_bytes(rng, ln), "num_bits": nb}


# whatever bytes_to_mnemonic returns must be the mnemonic OF ITS INPUT: either the call is refused or the
# result decodes back to b (the function takes the bit length as a second, redundant argument)
contract("verif.harness.mnemonic.mnemonic_indices#anylen", props=("C14",), tiers=NO_SYMBOLIC,
         params={"b": ("bytes", 0, 64), "num_bits": "int"},
         ensures=["implies(num_bits not in (128, 160, 192, 224, 256), raises())",
                  "implies(returns(), spec.mnemonic.decode(result) == b)"],
         gen=_gen_anylen, note="symbolic strings")


def _gen_decode(rng, tier):
    import verif.specs as s
    m = s.mnemonic
    for nb in SIZES:
        for e in _boundary_entropies(nb // 8)[:4] + [rand_bytes(rng, nb // 8) for _ in range(3)]:
            idx = m.indices(e)
            w = len(idx)
            yield {"idx": idx, "prefix_mask": 0}
            yield {"idx": idx, "prefix_mask": (1 << w) - 1}
            yield {"idx": idx, "prefix_mask": rng.getrandbits(w)}
            for _ in range(6):              # one substituted word
                j = rng.randrange(w)
                bad = list(idx)
                bad[j] = (bad[j] + 1 + rng.randrange(2047)) % 2048
                yield {"idx": bad, "prefix_mask": rng.choice([0, (1 << w) - 1])}
            yield {"idx": idx[:-1], "prefix_mask": 0}
            yield {"idx": idx + [idx[0]], "prefix_mask": 0}
            sw = list(idx)
            sw[0], sw[1] = sw[1], sw[0]
            yield {"idx": sw, "prefix_mask": 0}
    for w in list(range(0, 31)):
        yield {"idx": [rng.randrange(2048) for _ in range(w)], "prefix_mask": 0}
    while True:
        w = rng.choice((12, 15, 18, 21, 24))
        yield {"idx": [rng.randrange(2048) for _ in range(w)], "prefix_mask": rng.getrandbits(w)}


# C14.1: accepted exactly when the length is valid and the checksum matches; full words or 4-letter prefixes
contract("verif.harness.mnemonic.decode_indices", props=("C14",), tiers=NO_SYMBOLIC,
         params={"idx": "list of ints 0..2047", "prefix_mask": "nat"},
         requires=["all(0 <= i < 2048 for i in idx)"],
         ensures=["returns() == spec.mnemonic.indices_valid(idx)",
                  "implies(returns(), result == spec.mnemonic.decode(idx))"],
         gen=_gen_decode, note="symbolic strings")


# ---------------------------------------------------------------------------------------- seed and master key
def _gen_master(rng, tier):
    import verif.specs as s
    m = s.mnemonic
    pws = [b"", b"TREZOR", "über paß".encode(), bytes([0xff, 0xfe, 0x00, 0x80]), rand_bytes(rng, 150)]
    k = 0
    for nb in SIZES:
        for e in (bytes(nb // 8), b"\xff" * (nb // 8), rand_bytes(rng, nb // 8)):
            idx = m.indices(e)
            yield {"idx": idx, "password": pws[k % len(pws)], "prefix_mask": (0, (1 << len(idx)) - 1, 5)[k % 3]}
            k += 1
    while True:
        nb = rng.choice(SIZES)
        idx = m.indices(rand_bytes(rng, nb // 8))
        yield {"idx": idx, "password": rand_bytes(rng, rng.randrange(0, 40)), "prefix_mask": rng.getrandbits(len(idx))}


# C14.3: seed = PBKDF2(HMAC-SHA512, sentence of FULL words, "mnemonic"+passphrase, 2048, 64); master per BIP32
contract("verif.harness.mnemonic.master_from_indices", props=("C14",), tiers=NO_SYMBOLIC,
         params={"idx": "list of ints", "password": "bytes", "prefix_mask": "nat"},
         requires=["spec.mnemonic.indices_valid(idx)",
                   "spec.mnemonic.bip32_master(spec.mnemonic.seed_of_indices(idx, password)) is not None"],
         ensures=["returns()",
                  "result[0] == spec.mnemonic.bip32_master(spec.mnemonic.seed_of_indices(idx, password))[0]",
                  "result[1] == spec.mnemonic.bip32_master(spec.mnemonic.seed_of_indices(idx, password))[1]",
                  "result[2] == 0",
                  "result[3] == spec.mnemonic.master_xprv(spec.mnemonic.seed_of_indices(idx, password))"],
         gen=_gen_master, note="symbolic strings; 2048-round PBKDF2; pure-Python EC multiplication")
