"""secp256k1 reference arithmetic (SEC2 parameters), written independently of the repository.
Concrete points are (x, y) tuples or None for infinity.  Under the symbolic engine these
functions are replaced by the discrete-log theory (verif/pyvc/theories.py): the same abstract
points the real S256Point operations produce, so that code and spec are compared in one theory."""

P = 2**256 - 2**32 - 977
N = 0xFFFFFFFFFFFFFFFFFFFFFFFFFFFFFFFEBAAEDCE6AF48A03BBFD25E8CD0364141
GX = 0x79BE667EF9DCBBAC55A06295CE870B07029BFCDB2DCE28D959F2815B16F81798
GY = 0x483ADA7726A3C4655DA4FBFC0E1108A8FD17B448A68554199C47D08FFB10D4B8
G_ = (GX, GY)


def inv_mod(a, m):
    """modular inverse for prime m (Fermat); 0 for a == 0 (mod m) like pow(0, m-2, m)"""
    return pow(a, m - 2, m)


def _add(p1, p2):
    if p1 is None:
        return p2
    if p2 is None:
        return p1
    x1, y1 = p1
    x2, y2 = p2
    if x1 == x2 and (y1 + y2) % P == 0:
        return None
    if x1 == x2:
        lam = 3 * x1 * x1 * pow(2 * y1, P - 2, P) % P
    else:
        lam = (y2 - y1) * pow(x2 - x1, P - 2, P) % P
    x3 = (lam * lam - x1 - x2) % P
    return (x3, (lam * (x1 - x3) - y1) % P)


def _mul(k, p):
    k %= N
    r = None
    while k:
        if k & 1:
            r = _add(r, p)
        p = _add(p, p)
        k >>= 1
    return r


def pt(p):
    """adapter: a real buidl S256Point (or a tuple/None) -> spec point"""
    if p is None or isinstance(p, tuple):
        return p
    if p.x is None:
        return None
    return (p.x.num, p.y.num)


def mul_G(k):
    return _mul(k, G_)


def mul(k, p):
    return _mul(k, pt(p))


def add(p1, p2):
    return _add(pt(p1), pt(p2))


def is_inf(p):
    return pt(p) is None


def x_of(p):
    return pt(p)[0]


def y_of(p):
    return pt(p)[1]


def has_even_y(p):
    return pt(p)[1] % 2 == 0


def same(p1, p2):
    return pt(p1) == pt(p2)


def on_curve(x, y):
    return 0 <= x < P and 0 <= y < P and (y * y - x * x * x - 7) % P == 0


def lift_x(x):
    """BIP340 lift_x: the point with x-coordinate x and even y, or None when there is none"""
    if not 0 <= x < P:
        return None
    c = (x * x * x + 7) % P
    y = pow(c, (P + 1) // 4, P)
    if y * y % P != c:
        return None
    return (x, y if y % 2 == 0 else P - y)
