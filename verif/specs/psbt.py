"""PSBT spec functions, written from BIP174 (version 0 PSBTs), BIP32 (public derivation), BIP16/BIP141
(script-hash commitments) and from the statements of properties C10/C11 -- independent of the repository.

Abstract PSBT state (neutral dict form; every value is bytes/int/None/dict/list):

  state = {"tx": <unsigned tx bytes>, "xpubs": {xpub78: fp+path}, "unknown": {key: value},
           "inputs":  [ {"non_witness_utxo": b|None, "witness_utxo": b|None, "partial_sigs": {pub: sig},
                         "sighash": int|None, "redeem_script": b|None, "witness_script": b|None,
                         "bip32": {pub: fp+path}, "final_scriptsig": b|None, "final_scriptwitness": b|None,
                         "unknown": {key: value}} ...],
           "outputs": [ {"redeem_script": b|None, "witness_script": b|None, "bip32": {pub: fp+path},
                         "unknown": {key: value}} ...]}

`psbt_parse` is strict (BIP174: duplicate keys, wrong key lengths, an unsigned tx that is not the legacy
serialisation with empty scriptSigs are all errors -> ValueError).  `psbt_ser` emits records in the order the
repository promises: ascending key type; partial signatures in the order their keys appear in the
witness/redeem script (remaining keys sorted afterwards), else sorted; derivations sorted by key; unknown
records sorted by key.
"""
import hashlib
import hmac

from .wire import compact_size, le, sha256, hash256, hash160

PSBT_MAGIC = b"psbt\xff"


class Reject(ValueError):
    """the PSBT must be rejected (C10: at load; C11: instead of being summarised)"""


# ---------------------------------------------------------------------------- key-value records
def kv(key, value):
    """<keylen> <key> <valuelen> <value>, lengths as CompactSize"""
    return compact_size(len(key)) + key + compact_size(len(value)) + value


def bip32_record(type_byte, pubkey, fingerprint, path_bytes):
    """PSBT_{IN,OUT}_BIP32_DERIVATION: key = type || pubkey, value = 4-byte fingerprint || 4-byte LE indices"""
    return kv(type_byte + pubkey, fingerprint + path_bytes)


def xpub_record(xpub78, fingerprint, path_bytes):
    """PSBT_GLOBAL_XPUB: key = 0x01 || 78-byte serialised extended key, value = fingerprint || LE indices"""
    return kv(b"\x01" + xpub78, fingerprint + path_bytes)


def path_bytes(indices):
    out = b""
    for i in indices:
        out += le(i, 4)
    return out


def path_indices(b):
    if len(b) % 4 != 0:
        raise ValueError("derivation path is not a multiple of 4 bytes")
    return [int.from_bytes(b[i:i + 4], "little") for i in range(0, len(b), 4)]


# ---------------------------------------------------------------------------- byte reader
def _take(raw, pos, n):
    if n < 0 or pos + n > len(raw):
        raise ValueError("truncated")
    return raw[pos:pos + n], pos + n


def _cs(raw, pos):
    b, pos = _take(raw, pos, 1)
    if b[0] < 0xFD:
        return b[0], pos
    w = {0xFD: 2, 0xFE: 4, 0xFF: 8}[b[0]]
    v, pos = _take(raw, pos, w)
    return int.from_bytes(v, "little"), pos


def _varbytes(raw, pos):
    n, pos = _cs(raw, pos)
    return _take(raw, pos, n)


# ---------------------------------------------------------------------------- transactions
def tx_parse(raw, pos=0, allow_witness=True):
    """-> (tx dict, end position).  BIP144: marker 00 flag 01 after the version announces witnesses"""
    v, pos = _take(raw, pos, 4)
    tx = {"version": int.from_bytes(v, "little"), "ins": [], "outs": [], "segwit": False}
    if allow_witness and raw[pos:pos + 2] == b"\x00\x01":
        tx["segwit"] = True
        pos += 2
    n, pos = _cs(raw, pos)
    for _ in range(n):
        txid, pos = _take(raw, pos, 32)
        vout, pos = _take(raw, pos, 4)
        ss, pos = _varbytes(raw, pos)
        seq, pos = _take(raw, pos, 4)
        tx["ins"].append({"txid": txid, "vout": int.from_bytes(vout, "little"), "script_sig": ss,
                          "sequence": int.from_bytes(seq, "little"), "witness": []})
    n, pos = _cs(raw, pos)
    for _ in range(n):
        a, pos = _take(raw, pos, 8)
        spk, pos = _varbytes(raw, pos)
        tx["outs"].append({"amount": int.from_bytes(a, "little"), "spk": spk})
    if tx["segwit"]:
        for i in tx["ins"]:
            k, pos = _cs(raw, pos)
            for _ in range(k):
                item, pos = _varbytes(raw, pos)
                i["witness"].append(item)
    lt, pos = _take(raw, pos, 4)
    tx["locktime"] = int.from_bytes(lt, "little")
    return tx, pos


def tx_ser_legacy(tx, blank_script_sigs=False):
    out = le(tx["version"], 4) + compact_size(len(tx["ins"]))
    for i in tx["ins"]:
        ss = b"" if blank_script_sigs else i["script_sig"]
        out += i["txid"] + le(i["vout"], 4) + compact_size(len(ss)) + ss + le(i["sequence"], 4)
    out += compact_size(len(tx["outs"]))
    for o in tx["outs"]:
        out += txout_ser(o["amount"], o["spk"])
    return out + le(tx["locktime"], 4)


def txout_ser(amount, spk):
    return le(amount, 8) + compact_size(len(spk)) + spk


def txout_parse(raw):
    a, pos = _take(raw, 0, 8)
    spk, pos = _varbytes(raw, pos)
    if pos != len(raw):
        raise ValueError("trailing bytes after txout")
    return int.from_bytes(a, "little"), spk


def txid(tx):
    """hash of the non-witness serialisation, in the byte order used inside outpoints"""
    return hash256(tx_ser_legacy(tx))


def unsigned_tx_parse(raw):
    """BIP174: the global transaction is in non-witness serialisation (a 0-input tx is therefore not a
    segwit marker), scriptSigs and witnesses empty"""
    tx, pos = tx_parse(raw, 0, allow_witness=False)
    if pos != len(raw):
        raise ValueError("unsigned tx: trailing bytes / not the legacy serialisation")
    for i in tx["ins"]:
        if i["script_sig"] != b"":
            raise ValueError("unsigned tx: non-empty scriptSig")
    return tx


def is_legacy_unsigned_tx(raw):
    try:
        unsigned_tx_parse(raw)
        return True
    except (ValueError, KeyError, IndexError):
        return False


# ---------------------------------------------------------------------------- scripts
def script_pushes(script):
    """[(opcode, data|None)] of a script; ValueError if a push runs past the end"""
    out = []
    pos = 0
    while pos < len(script):
        op = script[pos]
        pos += 1
        if 1 <= op <= 75:
            d, pos = _take(script, pos, op)
            out.append((op, d))
        elif op == 76:
            n, pos = _take(script, pos, 1)
            d, pos = _take(script, pos, n[0])
            out.append((op, d))
        elif op == 77:
            n, pos = _take(script, pos, 2)
            d, pos = _take(script, pos, int.from_bytes(n, "little"))
            out.append((op, d))
        elif op == 78:
            n, pos = _take(script, pos, 4)
            d, pos = _take(script, pos, int.from_bytes(n, "little"))
            out.append((op, d))
        else:
            out.append((op, None))
    return out


def multisig_script(m, pubkeys):
    """OP_m <pk1> ... <pkn> OP_n OP_CHECKMULTISIG (keys in the given order)"""
    out = bytes([0x50 + m])
    for pk in pubkeys:
        out += bytes([len(pk)]) + pk
    return out + bytes([0x50 + len(pubkeys), 0xAE])


def parse_multisig(script):
    """(m, [pubkeys]) iff script is exactly OP_m <33-byte key>*n OP_n OP_CHECKMULTISIG with 1<=m<=n<=16, else None"""
    try:
        ops = script_pushes(script)
    except ValueError:
        return None
    if len(ops) < 4 or ops[-1] != (0xAE, None):
        return None
    m_op, n_op = ops[0], ops[-2]
    if m_op[1] is not None or n_op[1] is not None:
        return None
    m, n = m_op[0] - 0x50, n_op[0] - 0x50
    keys = ops[1:-2]
    if not (1 <= m <= n <= 16) or len(keys) != n:
        return None
    pks = []
    for op, d in keys:
        if d is None or op != 33 or len(d) != 33 or d[0] not in (2, 3):
            return None
        pks.append(d)
    return m, pks


def p2sh(h160):
    return b"\xa9\x14" + h160 + b"\x87"


def p2wsh(s256):
    return b"\x00\x20" + s256


def p2wpkh(h160):
    return b"\x00\x14" + h160


def p2pkh(h160):
    return b"\x76\xa9\x14" + h160 + b"\x88\xac"


def is_witness_program(script):
    return 4 <= len(script) <= 42 and script[0] in (0,) + tuple(range(0x51, 0x61)) and script[1] == len(script) - 2


def committed_script(spk, redeem_script, witness_script):
    """The script a scriptPubKey commits to BY HASH through the attached scripts, with its kind, or None:
       spk == P2WSH(sha256(ws))                          -> ("p2wsh", ws)
       spk == P2SH(hash160(rs)), rs not a witness prog.  -> ("p2sh", rs)
       spk == P2SH(hash160(rs)), rs == P2WSH(sha256(ws)) -> ("p2sh-p2wsh", ws)"""
    if witness_script is not None and redeem_script is None:
        if spk == p2wsh(sha256(witness_script)):
            return "p2wsh", witness_script
        return None
    if redeem_script is not None and witness_script is None:
        if spk == p2sh(hash160(redeem_script)) and not is_witness_program(redeem_script):
            return "p2sh", redeem_script
        return None
    if redeem_script is not None and witness_script is not None:
        if spk == p2sh(hash160(redeem_script)) and redeem_script == p2wsh(sha256(witness_script)):
            return "p2sh-p2wsh", witness_script
        return None
    return None


# ---------------------------------------------------------------------------- PSBT codec
def _read_map(raw, pos):
    """-> ([(key, value)], pos after the 0x00 separator); duplicate keys are an error (BIP174)"""
    recs = []
    seen = set()
    while True:
        key, pos = _varbytes(raw, pos)
        if key == b"":
            return recs, pos
        if key in seen:
            raise ValueError("duplicate key " + key.hex())
        seen.add(key)
        value, pos = _varbytes(raw, pos)
        recs.append((key, value))


def _single(key):
    if len(key) != 1:
        raise ValueError("key of type %02x must be one byte long" % key[0])


def _check_whole_tx(value):
    tx, pos = tx_parse(value)
    if pos != len(value):
        raise ValueError("non-witness utxo: trailing bytes")


def _check_witness_stack(value):
    n, pos = _cs(value, 0)
    for _ in range(n):
        _, pos = _varbytes(value, pos)
    if pos != len(value):
        raise ValueError("final scriptwitness: trailing bytes")


def _check_deriv(value):
    if len(value) < 4 or len(value) % 4 != 0:
        raise ValueError("bip32 derivation value must be fingerprint + 4-byte indices")


def new_input():
    return {"non_witness_utxo": None, "witness_utxo": None, "partial_sigs": {}, "sighash": None,
            "redeem_script": None, "witness_script": None, "bip32": {}, "final_scriptsig": None,
            "final_scriptwitness": None, "unknown": {}}


def new_output():
    return {"redeem_script": None, "witness_script": None, "bip32": {}, "unknown": {}}


_IN_SINGLE = {0: "non_witness_utxo", 1: "witness_utxo", 4: "redeem_script", 5: "witness_script",
              7: "final_scriptsig", 8: "final_scriptwitness"}


def psbt_parse(raw):
    if raw[:5] != PSBT_MAGIC:
        raise ValueError("bad magic")
    recs, pos = _read_map(raw, 5)
    st = {"tx": None, "xpubs": {}, "unknown": {}, "inputs": [], "outputs": []}
    for key, value in recs:
        t = key[0]
        if t == 0:
            _single(key)
            st["tx"] = value
        elif t == 1:
            if len(key) != 79:
                raise ValueError("global xpub key must be 1+78 bytes")
            _check_deriv(value)
            if key[5] != (len(value) - 4) // 4:
                raise ValueError("global xpub: depth differs from path length")
            st["xpubs"][key[1:]] = value
        else:
            st["unknown"][key] = value
    if st["tx"] is None:
        raise ValueError("unsigned tx missing")
    tx = unsigned_tx_parse(st["tx"])
    for _ in tx["ins"]:
        recs, pos = _read_map(raw, pos)
        d = new_input()
        for key, value in recs:
            t = key[0]
            if t in _IN_SINGLE:
                _single(key)
                if t == 0:
                    _check_whole_tx(value)
                elif t == 1:
                    txout_parse(value)
                elif t == 8:
                    _check_witness_stack(value)
                d[_IN_SINGLE[t]] = value
            elif t == 2:
                if len(key) not in (34, 66):
                    raise ValueError("partial sig key must be type + 33/65-byte public key")
                d["partial_sigs"][key[1:]] = value
            elif t == 3:
                _single(key)
                if len(value) != 4:
                    raise ValueError("sighash type must be a 32-bit little-endian integer")
                d["sighash"] = int.from_bytes(value, "little")
            elif t == 6:
                if len(key) not in (34, 66):
                    raise ValueError("bip32 derivation key must be type + public key")
                _check_deriv(value)
                d["bip32"][key[1:]] = value
            else:
                d["unknown"][key] = value
        st["inputs"].append(d)
    for _ in tx["outs"]:
        recs, pos = _read_map(raw, pos)
        d = new_output()
        for key, value in recs:
            t = key[0]
            if t == 0:
                _single(key)
                d["redeem_script"] = value
            elif t == 1:
                _single(key)
                d["witness_script"] = value
            elif t == 2:
                if len(key) not in (34, 66):
                    raise ValueError("bip32 derivation key must be type + public key")
                _check_deriv(value)
                d["bip32"][key[1:]] = value
            else:
                d["unknown"][key] = value
        st["outputs"].append(d)
    if pos != len(raw):
        raise ValueError("trailing bytes after the last output map")
    return st


def sig_order(inp):
    """emission order of the partial signatures of one input (see module docstring)"""
    keys = list(inp["partial_sigs"].keys())
    script = None
    if inp["witness_script"] is not None:
        script = inp["witness_script"]
    elif inp["redeem_script"] is not None and not is_witness_program(inp["redeem_script"]):
        script = inp["redeem_script"]
    if script is None:
        return sorted(keys)
    try:
        pushed = [d for _, d in script_pushes(script) if d is not None]
    except ValueError:
        pushed = []
    out = []
    for d in pushed:
        if d in inp["partial_sigs"] and d not in out:
            out.append(d)
    return out + sorted(k for k in keys if k not in out)


def _opt(type_byte, value):
    return b"" if value is None else kv(type_byte, value)


def input_map_ser(inp):
    out = _opt(b"\x00", inp["non_witness_utxo"]) + _opt(b"\x01", inp["witness_utxo"])
    for k in sig_order(inp):
        out += kv(b"\x02" + k, inp["partial_sigs"][k])
    if inp["sighash"] is not None:
        out += kv(b"\x03", le(inp["sighash"], 4))
    out += _opt(b"\x04", inp["redeem_script"]) + _opt(b"\x05", inp["witness_script"])
    for k in sorted(inp["bip32"]):
        out += kv(b"\x06" + k, inp["bip32"][k])
    out += _opt(b"\x07", inp["final_scriptsig"]) + _opt(b"\x08", inp["final_scriptwitness"])
    for k in sorted(inp["unknown"]):
        out += kv(k, inp["unknown"][k])
    return out + b"\x00"


def output_map_ser(o):
    out = _opt(b"\x00", o["redeem_script"]) + _opt(b"\x01", o["witness_script"])
    for k in sorted(o["bip32"]):
        out += kv(b"\x02" + k, o["bip32"][k])
    for k in sorted(o["unknown"]):
        out += kv(k, o["unknown"][k])
    return out + b"\x00"


def psbt_ser(st):
    out = PSBT_MAGIC + kv(b"\x00", st["tx"])
    for k in sorted(st["xpubs"]):
        out += kv(b"\x01" + k, st["xpubs"][k])
    for k in sorted(st["unknown"]):
        out += kv(k, st["unknown"][k])
    out += b"\x00"
    for i in st["inputs"]:
        out += input_map_ser(i)
    for o in st["outputs"]:
        out += output_map_ser(o)
    return out


# ---------------------------------------------------------------------------- combiner
def _first(a, b):
    return a if a is not None else b


def _union(a, b):
    d = dict(b)
    d.update(a)
    return d


def compatible(a, b):
    """both states describe the same unsigned tx and agree wherever both define a value (states that derive
    from one base PSBT by updating/signing always are: signatures are deterministic, RFC6979)"""
    if a["tx"] != b["tx"]:
        return False

    def maps_ok(x, y):
        return all(x[k] == y[k] for k in x if k in y)

    def rec_ok(x, y):
        for f in x:
            if isinstance(x[f], dict):
                if not maps_ok(x[f], y[f]):
                    return False
            elif x[f] is not None and y[f] is not None and x[f] != y[f]:
                return False
        return True
    return (maps_ok(a["xpubs"], b["xpubs"]) and maps_ok(a["unknown"], b["unknown"])
            and all(rec_ok(x, y) for x, y in zip(a["inputs"], b["inputs"]))
            and all(rec_ok(x, y) for x, y in zip(a["outputs"], b["outputs"])))


def merge(a, b):
    """BIP174 combiner: union of all maps of PSBTs for the same unsigned transaction"""
    if a["tx"] != b["tx"]:
        raise ValueError("different transactions")

    def rec(x, y):
        return {f: (_union(x[f], y[f]) if isinstance(x[f], dict) else _first(x[f], y[f])) for f in x}
    return {"tx": a["tx"], "xpubs": _union(a["xpubs"], b["xpubs"]), "unknown": _union(a["unknown"], b["unknown"]),
            "inputs": [rec(x, y) for x, y in zip(a["inputs"], b["inputs"])],
            "outputs": [rec(x, y) for x, y in zip(a["outputs"], b["outputs"])]}


def merge_all(states):
    acc = states[0]
    for s in states[1:]:
        acc = merge(acc, s)
    return acc


# ---------------------------------------------------------------------------- finalizer / extractor (BIP174 roles)
def tx_ser_witness(tx):
    """BIP144 serialisation: marker 00, flag 01, witness stacks after the outputs"""
    out = le(tx["version"], 4) + b"\x00\x01" + compact_size(len(tx["ins"]))
    for i in tx["ins"]:
        out += i["txid"] + le(i["vout"], 4) + compact_size(len(i["script_sig"])) + i["script_sig"] + le(i["sequence"], 4)
    out += compact_size(len(tx["outs"]))
    for o in tx["outs"]:
        out += txout_ser(o["amount"], o["spk"])
    for i in tx["ins"]:
        out += witness_ser(i["witness"])
    return out + le(tx["locktime"], 4)


def witness_ser(items):
    out = compact_size(len(items))
    for it in items:
        out += compact_size(len(it)) + it
    return out


def push(b):
    """minimal data push (sizes used here are < 0x10000)"""
    n = len(b)
    if n < 0x4C:
        return bytes([n]) + b
    if n <= 0xFF:
        return b"\x4c" + bytes([n]) + b
    return b"\x4d" + le(n, 2) + b


def global_tx_bytes(raw):
    """value of the PSBT_GLOBAL_UNSIGNED_TX record of a serialised PSBT (no validation of the value)"""
    if raw[:5] != PSBT_MAGIC:
        raise ValueError("bad magic")
    pos = 5
    while True:                      # lenient walk over the global map (duplicates are not this function's business)
        k, pos = _varbytes(raw, pos)
        if k == b"":
            raise ValueError("unsigned tx missing")
        v, pos = _varbytes(raw, pos)
        if k == b"\x00":
            return v


def utxo_of(state, i):
    """(amount, spk) the PSBT states for input i (no consistency judgement), or None"""
    tx = unsigned_tx_parse(state["tx"])
    inp = state["inputs"][i]
    if inp["non_witness_utxo"] is not None:
        prev, _ = tx_parse(inp["non_witness_utxo"])
        o = prev["outs"][tx["ins"][i]["vout"]]
        return o["amount"], o["spk"]
    if inp["witness_utxo"] is not None:
        return txout_parse(inp["witness_utxo"])
    return None


def final_scripts(inp, spk):
    """(scriptSig, witness items) that spend `spk` from the partial signatures of `inp`; Reject when the
    signatures do not reach the threshold.  Multisig: the first m signatures in script key order."""
    c = committed_script(spk, inp["redeem_script"], inp["witness_script"])
    sigs = inp["partial_sigs"]
    if c is not None and parse_multisig(c[1]) is not None:
        m, keys = parse_multisig(c[1])
        have = [sigs[k] for k in keys if k in sigs]
        if len(have) < m:
            raise Reject("%d of %d required signatures" % (len(have), m))
        have = have[:m]
        if c[0] == "p2sh":
            ss = b"\x00"
            for s in have:
                ss += push(s)
            return ss + push(inp["redeem_script"]), []
        wit = [b""] + have + [inp["witness_script"]]
        return (push(inp["redeem_script"]) if c[0] == "p2sh-p2wsh" else b""), wit
    if len(sigs) != 1:
        raise Reject("single-key input needs exactly one signature")
    pub, sig = list(sigs.items())[0]
    if spk == p2pkh(hash160(pub)):
        return push(sig) + push(pub), []
    if spk == p2wpkh(hash160(pub)):
        return b"", [sig, pub]
    if inp["redeem_script"] is not None and spk == p2sh(hash160(inp["redeem_script"])) and \
            inp["redeem_script"] == p2wpkh(hash160(pub)):
        return push(inp["redeem_script"]), [sig, pub]
    raise Reject("unsupported script")


def finalize(state):
    """Input Finalizer: final scriptSig/scriptWitness set; partial sigs, sighash type, scripts and derivations
    cleared; UTXOs and unknown records kept; output maps untouched.  An empty scriptSig is not recorded."""
    out = {"tx": state["tx"], "xpubs": dict(state["xpubs"]), "unknown": dict(state["unknown"]), "inputs": [],
           "outputs": [dict(o, bip32=dict(o["bip32"]), unknown=dict(o["unknown"])) for o in state["outputs"]]}
    for i, inp in enumerate(state["inputs"]):
        u = utxo_of(state, i)
        if u is None:
            raise Reject("no utxo")
        ss, wit = final_scripts(inp, u[1])
        d = new_input()
        d["non_witness_utxo"], d["witness_utxo"] = inp["non_witness_utxo"], inp["witness_utxo"]
        d["unknown"] = dict(inp["unknown"])
        d["final_scriptsig"] = ss if ss != b"" else None
        d["final_scriptwitness"] = witness_ser(wit) if wit else None
        out["inputs"].append(d)
    return out


def extract(fstate):
    """Transaction Extractor: network serialisation of the signed transaction of a finalized state"""
    tx = unsigned_tx_parse(fstate["tx"])
    any_wit = False
    for i, inp in zip(tx["ins"], fstate["inputs"]):
        i["script_sig"] = inp["final_scriptsig"] or b""
        if inp["final_scriptwitness"] is not None:
            n, pos = _cs(inp["final_scriptwitness"], 0)
            for _ in range(n):
                it, pos = _varbytes(inp["final_scriptwitness"], pos)
                i["witness"].append(it)
            any_wit = True
    return tx_ser_witness(tx) if any_wit else tx_ser_legacy(tx)


def normalise_utxo(state):
    """a witness UTXO record next to a consistent full previous transaction is redundant: states are compared
    modulo it (BIP174 lets a serialiser keep either or both)"""
    st = dict(state)
    tx = unsigned_tx_parse(state["tx"])
    ins = []
    for k, i in enumerate(state["inputs"]):
        if i["non_witness_utxo"] is not None and i["witness_utxo"] is not None:
            prev, _ = tx_parse(i["non_witness_utxo"])
            v = tx["ins"][k]["vout"]
            if v < len(prev["outs"]) and txout_ser(prev["outs"][v]["amount"], prev["outs"][v]["spk"]) == i["witness_utxo"]:
                i = dict(i, witness_utxo=None)
        ins.append(i)
    st["inputs"] = ins
    return st


def normalise_final(state):
    """a recorded-but-empty final scriptSig carries no information (compare finalized states modulo it)"""
    st = dict(state)
    st["inputs"] = [dict(i, final_scriptsig=(i["final_scriptsig"] or None)) for i in state["inputs"]]
    return st


# ---------------------------------------------------------------------------- secp256k1 / BIP32 (public derivation)
_P = 2**256 - 2**32 - 977
_N = 0xFFFFFFFFFFFFFFFFFFFFFFFFFFFFFFFEBAAEDCE6AF48A03BBFD25E8CD0364141
_G = (0x79BE667EF9DCBBAC55A06295CE870B07029BFCDB2DCE28D959F2815B16F81798,
      0x483ADA7726A3C4655DA4FBFC0E1108A8FD17B448A68554199C47D08FFB10D4B8)


def _jdouble(p):
    x, y, z = p
    if y == 0 or z == 0:
        return (0, 1, 0)
    s = 4 * x * y * y % _P
    m = 3 * x * x % _P
    x2 = (m * m - 2 * s) % _P
    y2 = (m * (s - x2) - 8 * y * y * y * y) % _P
    return (x2, y2, 2 * y * z % _P)


def _jadd(p, q):
    if p[2] == 0:
        return q
    if q[2] == 0:
        return p
    z1z1, z2z2 = p[2] * p[2] % _P, q[2] * q[2] % _P
    u1, u2 = p[0] * z2z2 % _P, q[0] * z1z1 % _P
    s1, s2 = p[1] * q[2] * z2z2 % _P, q[1] * p[2] * z1z1 % _P
    if u1 == u2:
        return _jdouble(p) if s1 == s2 else (0, 1, 0)
    h, r = (u2 - u1) % _P, (s2 - s1) % _P
    h2 = h * h % _P
    h3 = h * h2 % _P
    x3 = (r * r - h3 - 2 * u1 * h2) % _P
    y3 = (r * (u1 * h2 - x3) - s1 * h3) % _P
    return (x3, y3, h * p[2] * q[2] % _P)


def _affine(p):
    if p[2] == 0:
        return None
    zi = pow(p[2], -1, _P)
    return (p[0] * zi * zi % _P, p[1] * zi * zi * zi % _P)


def _mul(k, pt):
    acc = (0, 1, 0)
    add = (pt[0], pt[1], 1)
    while k:
        if k & 1:
            acc = _jadd(acc, add)
        add = _jdouble(add)
        k >>= 1
    return acc


def point_decompress(sec):
    if len(sec) != 33 or sec[0] not in (2, 3):
        raise ValueError("not a compressed public key")
    x = int.from_bytes(sec[1:], "big")
    if x >= _P:
        raise ValueError("x out of range")
    y = pow((x * x * x + 7) % _P, (_P + 1) // 4, _P)
    if (y * y - x * x * x - 7) % _P != 0:
        raise ValueError("not on the curve")
    if y % 2 != sec[0] - 2:
        y = _P - y
    return (x, y)


def on_curve(sec):
    try:
        point_decompress(sec)
        return True
    except ValueError:
        return False


def point_compress(pt):
    return bytes([2 + (pt[1] & 1)]) + pt[0].to_bytes(32, "big")


_CKD = {}


def ckd_pub(chain_code, pubkey, index):
    """BIP32 CKDpub((K, c), i) -> (K_i, c_i) for non-hardened i; None if hardened or the (2^-127) invalid case"""
    if index >= 0x80000000:
        return None
    memo = (chain_code, pubkey, index)
    if memo not in _CKD:
        i64 = hmac.new(chain_code, pubkey + index.to_bytes(4, "big"), hashlib.sha512).digest()
        il = int.from_bytes(i64[:32], "big")
        res = None
        if il < _N:
            pt = _affine(_jadd(_mul(il, _G), point_decompress(pubkey) + (1,)))
            if pt is not None:
                res = (point_compress(pt), i64[32:])
        _CKD[memo] = res
    return _CKD[memo]


def xpub_fields(xpub78):
    """version(4) depth(1) parent fingerprint(4) child number(4) chain code(32) key(33)"""
    if len(xpub78) != 78:
        raise ValueError("extended key must be 78 bytes")
    return {"version": xpub78[:4], "depth": xpub78[4], "parent_fp": xpub78[5:9],
            "child": int.from_bytes(xpub78[9:13], "big"), "chain_code": xpub78[13:45], "key": xpub78[45:]}


def derive_pub(xpub78, rel_indices):
    """public key (33 bytes) reached from the extended public key by the non-hardened indices, or None"""
    f = xpub_fields(xpub78)
    key, cc = f["key"], f["chain_code"]
    for i in rel_indices:
        r = ckd_pub(cc, key, i)
        if r is None:
            return None
        key, cc = r
    return key


# ---------------------------------------------------------------------------- C11: the review summary
# wallet = {"m": m, "cosigners": [{"fp": 4 bytes, "xpub": 78 bytes, "base": [indices] | None}, ...]}
def wallet_key(wallet, fp, full_path, strict_prefix=False):
    """The key the wallet holds for cosigner `fp` at the stated full path (root-relative indices): the path below
    the cosigner xpub's depth is walked from that xpub.  None if fp is not a (unique) cosigner, the path is too
    short or contains a hardened step below the xpub."""
    cos = [c for c in wallet["cosigners"] if c["fp"] == fp]
    if len(cos) != 1:
        return None
    c = cos[0]
    depth = xpub_fields(c["xpub"])["depth"]
    if len(full_path) < depth:
        return None
    if strict_prefix and c.get("base") is not None and list(full_path[:depth]) != list(c["base"]):
        return None
    return derive_pub(c["xpub"], full_path[depth:])


def wallet_owns_script(script, bip32, wallet, strict_prefix=False):
    """script is exactly an m-of-n multisig with the wallet's quorum whose keys are one derived key per cosigner
    xpub at the path stated for it in `bip32` ({pubkey: fp+path})"""
    ms = parse_multisig(script)
    if ms is None:
        return False
    m, keys = ms
    n = len(wallet["cosigners"])
    if m != wallet["m"] or len(keys) != n or len(set(keys)) != n:
        return False
    if set(bip32.keys()) != set(keys):
        return False
    fps = set()
    for k in keys:
        v = bip32[k]
        fp = v[:4]
        try:
            idx = path_indices(v[4:])
        except ValueError:
            return False
        if wallet_key(wallet, fp, idx, strict_prefix) != k:
            return False
        fps.add(fp)
    return len(fps) == n            # exactly one key from EACH cosigner


def is_change(state, j, wallet, strict_prefix=False):
    """C11 predicate for output j, exactly as the property words it"""
    tx = unsigned_tx_parse(state["tx"])
    o = state["outputs"][j]
    c = committed_script(tx["outs"][j]["spk"], o["redeem_script"], o["witness_script"])
    if c is None:
        return False
    return wallet_owns_script(c[1], o["bip32"], wallet, strict_prefix)


def input_utxo(state, i):
    """(amount, scriptPubKey) of the coin input i spends, as far as the PSBT PROVES it; Reject otherwise.
    BIP174: the non-witness UTXO must hash to the outpoint's txid; a witness UTXO alone is admissible only for
    segwit spends (the BIP143 digest then commits to the amount); if both are present they must agree."""
    tx = unsigned_tx_parse(state["tx"])
    inp = state["inputs"][i]
    full = None
    if inp["non_witness_utxo"] is not None:
        prev, _ = tx_parse(inp["non_witness_utxo"])
        if txid(prev) != tx["ins"][i]["txid"]:
            raise Reject("input %d: non-witness utxo does not hash to the outpoint" % i)
        if tx["ins"][i]["vout"] >= len(prev["outs"]):
            raise Reject("input %d: outpoint index out of range" % i)
        o = prev["outs"][tx["ins"][i]["vout"]]
        full = (o["amount"], o["spk"])
    if inp["witness_utxo"] is not None:
        w = txout_parse(inp["witness_utxo"])
        if full is not None:
            if w != full:
                raise Reject("input %d: witness utxo differs from the output of the non-witness utxo" % i)
            return full
        spk = w[1]
        segwit = is_witness_program(spk) or (
            inp["redeem_script"] is not None and spk == p2sh(hash160(inp["redeem_script"]))
            and is_witness_program(inp["redeem_script"]))
        if not segwit:
            raise Reject("input %d: witness utxo given for a non-segwit spend (amount unproven)" % i)
        return w
    if full is None:
        raise Reject("input %d: no utxo" % i)
    return full


def review(state, wallet, strict_prefix=False):
    """The faithful review summary, or Reject.  Inputs must all be provably coins of `wallet`."""
    tx = unsigned_tx_parse(state["tx"])
    if len(state["inputs"]) != len(tx["ins"]) or len(state["outputs"]) != len(tx["outs"]):
        raise Reject("map count")
    total_in = 0
    kinds = []
    for i, inp in enumerate(state["inputs"]):
        amount, spk = input_utxo(state, i)
        c = committed_script(spk, inp["redeem_script"], inp["witness_script"])
        if c is None:
            raise Reject("input %d: attached scripts do not hash to the scriptPubKey" % i)
        if not wallet_owns_script(c[1], inp["bip32"], wallet, strict_prefix):
            raise Reject("input %d: script/derivations are not the wallet's" % i)
        kinds.append(c[0])
        total_in += amount
    flags = [is_change(state, j, wallet, strict_prefix) for j in range(len(tx["outs"]))]
    total_out = sum(o["amount"] for o in tx["outs"])
    change = sum(o["amount"] for o, f in zip(tx["outs"], flags) if f)
    return {"total_input_sats": total_in, "total_output_sats": total_out, "tx_fee_sats": total_in - total_out,
            "spend_sats": total_out - change, "change_sats": change, "is_change": flags, "input_kinds": kinds}


def fee(input_amounts, output_amounts):
    return sum(input_amounts) - sum(output_amounts)


# ---------------------------------------------------------------------------- clause helpers (total functions)
def parses(raw):
    try:
        psbt_parse(raw)
        return True
    except (ValueError, KeyError, IndexError):
        return False


def canonical(raw):
    """raw is a valid PSBT in the promised emission order"""
    return parses(raw) and psbt_ser(psbt_parse(raw)) == raw


def can_finalize(raw):
    try:
        finalize(psbt_parse(raw))
        return True
    except (ValueError, KeyError, IndexError):
        return False


def final_tx_of(raw):
    return extract(finalize(psbt_parse(raw)))


def merged(a, b):
    return psbt_ser(merge(psbt_parse(a), psbt_parse(b)))


def review_of(raw, wallet):
    """review summary as the tuple the harness returns, or None when the PSBT must be rejected"""
    try:
        r = review(psbt_parse(raw), wallet)
    except (ValueError, KeyError, IndexError):
        return None
    return (r["total_input_sats"], r["total_output_sats"], r["tx_fee_sats"], r["spend_sats"], r["change_sats"], r["is_change"])


def change_sound(raw, wallet, flags):
    """every output flagged change satisfies the C11 predicate"""
    st = psbt_parse(raw)
    return all((not f) or is_change(st, j, wallet) for j, f in enumerate(flags))
