"""What "this input is authorised" means, per output type -- written from BIP16, BIP141, BIP143,
BIP340, BIP341, BIP342 and the consensus rules of OP_CHECKSIG / OP_CHECKMULTISIG (Bitcoin Core
`interpreter.cpp` as documented in the developer reference), independent of /repo.

Three layers:
  1. small pure functions used symbolically by contracts: has_annex, merkle_root, multisig_authorised;
  2. self-contained secp256k1 / strict DER / ECDSA / BIP340 verification over plain integers
     (no repository code), p2tr_commitment_ok (tagged-hash Merkle path + tweak + parity);
  3. per-template predicates authorised_* over a *spend description* (plain data, see `SpendDesc`
     below) and the dispatcher `authorised(desc)`.

The only repository code used here are the signature-hash functions (`Tx.sig_hash_legacy`,
`Tx.sig_hash_bip143`, `Tx.sig_hash_bip341`), called on a freshly built transaction object with an
explicit script code / ext_flag: the digest formulas are property C05's business.  A different
digest oracle can be passed as `digest=`.

Spend description (`desc`), plain data:
  {"version": int, "locktime": int, "segwit": bool, "index": int,
   "ins":  [{"prev_tx": bytes32, "prev_index": int, "script_sig": [cmd...], "sequence": int,
             "witness": [bytes...], "amount": int, "spk": [cmd...]}, ...],
   "outs": [{"amount": int, "spk": [cmd...]}, ...]}
a cmd is an int (opcode) or bytes (pushed element).
"""
import hashlib

# ------------------------------------------------------------------------------------------------
# 1. small pure functions (pyvc subset)
# ------------------------------------------------------------------------------------------------


def has_annex(items):
    """BIP341: "If there are at least two witness elements, and the first byte of the last element
    is 0x50, this last element is called annex"."""
    if len(items) < 2:
        return False
    last = items[len(items) - 1]
    if len(last) < 1:
        return False
    return last[0] == 0x50


def has_annex0():
    return has_annex([])


def has_annex1(a):
    return has_annex([a])


def has_annex2(a, b):
    return has_annex([a, b])


def has_annex3(a, b, c):
    return has_annex([a, b, c])


def _sha256(b):
    return hashlib.sha256(b).digest()


def tagged_hash(tag, msg):
    """BIP340: SHA256(SHA256(tag) || SHA256(tag) || msg)"""
    t = hashlib.sha256(tag).digest()
    return hashlib.sha256(t + t + msg).digest()


def _compact_size(n):
    if n < 0xFD:
        return n.to_bytes(1, "little")
    if n <= 0xFFFF:
        return b"\xfd" + n.to_bytes(2, "little")
    if n <= 0xFFFFFFFF:
        return b"\xfe" + n.to_bytes(4, "little")
    return b"\xff" + n.to_bytes(8, "little")


def tapleaf_hash(leaf_version, script):
    """BIP341: k0 = hash_TapLeaf(v || compact_size(size of s) || s)"""
    return tagged_hash(b"TapLeaf", leaf_version.to_bytes(1, "big") + _compact_size(len(script)) + script)


def tapbranch_step(k, e):
    """BIP341: kj+1 = hash_TapBranch(kj || ej) if kj < ej (lexicographic) else hash_TapBranch(ej || kj)"""
    if k < e:
        return tagged_hash(b"TapBranch", k + e)
    return tagged_hash(b"TapBranch", e + k)


def merkle_root(leaf_version, script, path):
    """fold of the control block's path over the leaf hash"""
    k = tapleaf_hash(leaf_version, script)
    for e in path:
        k = tapbranch_step(k, e)
    return k


def merkle_root0(leaf_version, script):
    return merkle_root(leaf_version, script, [])


def merkle_root1(leaf_version, script, h0):
    return merkle_root(leaf_version, script, [h0])


def merkle_root2(leaf_version, script, h0, h1):
    return merkle_root(leaf_version, script, [h0, h1])


def merkle_root3(leaf_version, script, h0, h1, h2):
    return merkle_root(leaf_version, script, [h0, h1, h2])


def control_block_len_ok(n):
    """BIP341: control block c has length 33 + 32m, m an integer in 0..128"""
    return n >= 33 and n <= 33 + 32 * 128 and (n - 33) % 32 == 0


def multisig_authorised(sigs, keys, ok):
    """Consensus OP_CHECKMULTISIG: both lists are walked once (from the last element, as the
    interpreter does); a signature that fails against a key discards that key; success iff every
    signature found a key and keys did not run out.  `ok(sig, key)` is the single-signature check.
    sigs and keys are in script order."""
    isig = len(sigs) - 1
    ikey = len(keys) - 1
    if len(sigs) > len(keys):
        return False
    while isig >= 0:
        if ikey < isig:             # more signatures left than keys: fail
            return False
        if ok(sigs[isig], keys[ikey]):
            isig -= 1
        ikey -= 1
    return True


def multisig_injection_exists(sigs, keys, ok):
    """the declarative reading: an order-preserving injection of the signatures into the keys with
    every matched pair valid (exhaustive search; used to cross-check the walk above)"""
    m, n = len(sigs), len(keys)

    def rec(i, j):
        if i == m:
            return True
        for t in range(j, n):
            if ok(sigs[i], keys[t]) and rec(i + 1, t + 1):
                return True
        return False
    return rec(0, 0)


# ------------------------------------------------------------------------------------------------
# 2. secp256k1 over plain integers; strict DER; ECDSA; BIP340
# ------------------------------------------------------------------------------------------------
FP = 2**256 - 2**32 - 977
GN = 0xFFFFFFFFFFFFFFFFFFFFFFFFFFFFFFFEBAAEDCE6AF48A03BBFD25E8CD0364141
GX = 0x79BE667EF9DCBBAC55A06295CE870B07029BFCDB2DCE28D959F2815B16F81798
GY = 0x483ADA7726A3C4655DA4FBFC0E1108A8FD17B448A68554199C47D08FFB10D4B8
GPT = (GX, GY)


def pt_add(a, b):
    """affine addition on y^2 = x^3 + 7 over F_p; None is the point at infinity"""
    if a is None:
        return b
    if b is None:
        return a
    if a[0] == b[0]:
        if (a[1] + b[1]) % FP == 0:
            return None
        lam = 3 * a[0] * a[0] * pow(2 * a[1], -1, FP) % FP
    else:
        lam = (b[1] - a[1]) * pow(b[0] - a[0], -1, FP) % FP
    x = (lam * lam - a[0] - b[0]) % FP
    return (x, (lam * (a[0] - x) - a[1]) % FP)


def pt_mul(k, a):
    k %= GN
    r = None
    while k:
        if k & 1:
            r = pt_add(r, a)
        a = pt_add(a, a)
        k >>= 1
    return r


def lift_x(x):
    """BIP340 lift_x: the point with this x and even y, or None"""
    if x >= FP:
        return None
    c = (pow(x, 3, FP) + 7) % FP
    y = pow(c, (FP + 1) // 4, FP)
    if y * y % FP != c:
        return None
    return (x, y if y % 2 == 0 else FP - y)


def parse_pubkey(sec):
    """SEC1 compressed/uncompressed public key -> point or None"""
    if len(sec) == 33 and sec[0] in (2, 3):
        p = lift_x(int.from_bytes(sec[1:], "big"))
        if p is None:
            return None
        return p if (p[1] & 1) == (sec[0] & 1) else (p[0], FP - p[1])
    if len(sec) == 65 and sec[0] == 4:
        x, y = int.from_bytes(sec[1:33], "big"), int.from_bytes(sec[33:], "big")
        if x >= FP or y >= FP or (y * y - x * x * x - 7) % FP:
            return None
        return (x, y)
    return None


def parse_der_strict(sig):
    """BIP66 strict DER -> (r, s) or None"""
    n = len(sig)
    if n < 8 or n > 72 or sig[0] != 0x30 or sig[1] != n - 2 or sig[2] != 0x02:
        return None
    lr = sig[3]
    if lr == 0 or 5 + lr >= n or sig[4 + lr] != 0x02:
        return None
    ls = sig[5 + lr]
    if ls == 0 or lr + ls + 6 != n:
        return None
    rb, sb = sig[4:4 + lr], sig[6 + lr:]
    for b in (rb, sb):
        if b[0] & 0x80:
            return None
        if len(b) > 1 and b[0] == 0 and not (b[1] & 0x80):
            return None
    return int.from_bytes(rb, "big"), int.from_bytes(sb, "big")


def ecdsa_ok(sec, z, der):
    q = parse_pubkey(sec)
    rs = parse_der_strict(der)
    if q is None or rs is None:
        return False
    r, s = rs
    if not (1 <= r < GN and 1 <= s < GN):
        return False
    w = pow(s, -1, GN)
    pt = pt_add(pt_mul(z * w % GN, GPT), pt_mul(r * w % GN, q))
    return pt is not None and pt[0] % GN == r


def schnorr_ok(pk32, msg32, sig64):
    """BIP340 Verify(pk, m, sig)"""
    if len(pk32) != 32 or len(sig64) != 64:
        return False
    p = lift_x(int.from_bytes(pk32, "big"))
    r = int.from_bytes(sig64[:32], "big")
    s = int.from_bytes(sig64[32:], "big")
    if p is None or r >= FP or s >= GN:
        return False
    e = int.from_bytes(tagged_hash(b"BIP0340/challenge", sig64[:32] + pk32 + msg32), "big") % GN
    rr = pt_add(pt_mul(s, GPT), pt_mul(GN - e, p))
    return rr is not None and rr[1] % 2 == 0 and rr[0] == r


def p2tr_commitment_ok(program, control_block, leaf_script):
    """BIP341 script path rule: with c the control block, p = c[1:33], P = lift_x(int(p)),
    k = Merkle fold, t = hash_TapTweak(p || k), fail if t >= order, Q = P + int(t)G;
    require q == x(Q) and c[0] & 1 == y(Q) mod 2."""
    if len(program) != 32 or not control_block_len_ok(len(control_block)):
        return False
    p = control_block[1:33]
    pt = lift_x(int.from_bytes(p, "big"))
    if pt is None:
        return False
    m = (len(control_block) - 33) // 32
    path = [control_block[33 + 32 * j:65 + 32 * j] for j in range(m)]
    k = merkle_root(control_block[0] & 0xFE, leaf_script, path)
    t = int.from_bytes(tagged_hash(b"TapTweak", p + k), "big")
    if t >= GN:
        return False
    q = pt_add(pt, pt_mul(t, GPT))
    if q is None:
        return False
    return q[0].to_bytes(32, "big") == program and (control_block[0] & 1) == (q[1] & 1)


def p2tr_output_key(internal_x32, root):
    """BIP341 taproot_tweak_pubkey: -> (parity, x32); root == b"" for a key-path-only output"""
    pt = lift_x(int.from_bytes(internal_x32, "big"))
    t = int.from_bytes(tagged_hash(b"TapTweak", internal_x32 + root), "big")
    q = pt_add(pt, pt_mul(t, GPT))
    return q[1] & 1, q[0].to_bytes(32, "big")


# ------------------------------------------------------------------------------------------------
# 3. templates
# ------------------------------------------------------------------------------------------------
def _h160(b):
    return hashlib.new("ripemd160", hashlib.sha256(b).digest()).digest()


OP_0, OP_1, OP_16, OP_NOP, OP_DROP, OP_DUP = 0x00, 0x51, 0x60, 0x61, 0x75, 0x76
OP_CHECKSIG, OP_CHECKSIGADD, OP_CHECKMULTISIG, OP_EQUAL, OP_NUMEQUAL = 0xAC, 0xBA, 0xAE, 0x87, 0x9C


class OutOfScope(Exception):
    """the spend uses script features this spec does not model: no verdict"""


def cast_to_bool(b):
    """consensus CastToBool: false iff every byte is zero, a final 0x80 (negative zero) allowed"""
    for i in range(len(b)):
        if b[i] != 0:
            return not (i == len(b) - 1 and b[i] == 0x80)
    return False


def run_simple(cmds, stack):
    """the straight-line fragment {pushes, OP_0, OP_1..OP_16, OP_NOP, OP_DROP, OP_DUP}; returns the
    new stack or None (script failure); anything else is out of scope"""
    st = list(stack)
    for c in cmds:
        if isinstance(c, bytes):
            st.append(c)
        elif c == OP_0:
            st.append(b"")
        elif OP_1 <= c <= OP_16:
            st.append(bytes([c - 0x50]))
        elif c == OP_NOP:
            pass
        elif c == OP_DROP:
            if not st:
                return None
            st.pop()
        elif c == OP_DUP:
            if not st:
                return None
            st.append(st[-1])
        else:
            raise OutOfScope("opcode 0x%02x in a scriptSig" % c)
    return st


def is_push_only(cmds):
    """consensus IsPushOnly: every opcode <= OP_16"""
    return all(isinstance(c, bytes) or c <= OP_16 for c in cmds)


def parse_script(raw):
    """raw script bytes -> command list (ints / bytes); None if a push runs past the end"""
    out, i, n = [], 0, len(raw)
    while i < n:
        op = raw[i]
        i += 1
        if 1 <= op <= 75:
            ln = op
        elif op == 76:
            if i + 1 > n:
                return None
            ln, i = raw[i], i + 1
        elif op == 77:
            if i + 2 > n:
                return None
            ln, i = int.from_bytes(raw[i:i + 2], "little"), i + 2
        elif op == 78:
            if i + 4 > n:
                return None
            ln, i = int.from_bytes(raw[i:i + 4], "little"), i + 4
        else:
            out.append(op)
            continue
        if i + ln > n:
            return None
        out.append(raw[i:i + ln])
        i += ln
    return out


def classify_spk(cmds):
    if len(cmds) == 5 and cmds[0] == 0x76 and cmds[1] == 0xA9 and isinstance(cmds[2], bytes) and len(cmds[2]) == 20 \
            and cmds[3] == 0x88 and cmds[4] == 0xAC:
        return "p2pkh", cmds[2]
    if len(cmds) == 3 and cmds[0] == 0xA9 and isinstance(cmds[1], bytes) and len(cmds[1]) == 20 and cmds[2] == 0x87:
        return "p2sh", cmds[1]
    if len(cmds) == 2 and cmds[0] == OP_0 and isinstance(cmds[1], bytes) and len(cmds[1]) == 20:
        return "p2wpkh", cmds[1]
    if len(cmds) == 2 and cmds[0] == OP_0 and isinstance(cmds[1], bytes) and len(cmds[1]) == 32:
        return "p2wsh", cmds[1]
    if len(cmds) == 2 and cmds[0] == OP_1 and isinstance(cmds[1], bytes) and len(cmds[1]) == 32:
        return "p2tr", cmds[1]
    return "other", None


def parse_multisig(cmds):
    """[OP_m, key.., OP_n, OP_CHECKMULTISIG] -> (m, keys) or None"""
    if len(cmds) < 4 or cmds[-1] != OP_CHECKMULTISIG:
        return None
    if not all(isinstance(c, int) for c in (cmds[0], cmds[-2])):
        return None
    if not (OP_1 <= cmds[0] <= OP_16 and OP_1 <= cmds[-2] <= OP_16):
        return None
    keys = cmds[1:-2]
    m, n = cmds[0] - 0x50, cmds[-2] - 0x50
    if n != len(keys) or m > n or not all(isinstance(k, bytes) for k in keys):
        return None
    return m, keys


def parse_tap_multisig(cmds):
    """BIP342 k-of-n: <x1> CHECKSIG <x2> CHECKSIGADD ... <xn> CHECKSIGADD <k> (NUM)EQUAL, or
    the single-key <x> CHECKSIG.  -> (k, [x..]) or None"""
    if len(cmds) == 2 and isinstance(cmds[0], bytes) and len(cmds[0]) == 32 and cmds[1] == OP_CHECKSIG:
        return 1, [cmds[0]]
    if len(cmds) < 6 or len(cmds) % 2 or cmds[-1] not in (OP_EQUAL, OP_NUMEQUAL):
        return None
    kop = cmds[-2]
    if not (isinstance(kop, int) and OP_1 <= kop <= OP_16):
        return None
    keys = []
    for j in range(0, len(cmds) - 2, 2):
        x, op = cmds[j], cmds[j + 1]
        if not (isinstance(x, bytes) and len(x) == 32 and op == (OP_CHECKSIG if j == 0 else OP_CHECKSIGADD)):
            return None
        keys.append(x)
    return kop - 0x50, keys


# ---- digest oracle (repository sig_hash functions on a fresh object, explicit script code) --------
def build_tx(desc):
    """fresh repository Tx from a spend description (no caches, no fetcher)"""
    from buidl.tx import Tx, TxIn, TxOut
    from buidl.script import Script
    from buidl.witness import Witness
    ins = []
    for d in desc["ins"]:
        ti = TxIn(d["prev_tx"], d["prev_index"], Script(list(d["script_sig"])), d["sequence"])
        ti._value = d["amount"]
        ti._script_pubkey = Script(list(d["spk"]))
        ti.witness = Witness(list(d["witness"]))
        ins.append(ti)
    outs = [TxOut(o["amount"], Script(list(o["spk"]))) for o in desc["outs"]]
    return Tx(desc["version"], ins, outs, desc["locktime"], network="signet", segwit=desc["segwit"])


class RepoDigest:
    """digest oracle: kind in {"legacy", "bip143", "bip341"}"""

    def __init__(self, desc):
        self.desc = desc
        self.cache = {}

    def __call__(self, kind, hash_type, script_code=None, leaf=None, annex=None):
        key = (kind, hash_type, tuple(script_code) if script_code is not None else None, leaf, annex)
        if key not in self.cache:
            self.cache[key] = self._compute(kind, hash_type, script_code, leaf, annex)
        return self.cache[key]

    def _compute(self, kind, hash_type, script_code, leaf, annex):
        from buidl.script import Script, WitnessScript
        from buidl.witness import Witness
        i = self.desc["index"]
        tx = build_tx(self.desc)
        if kind == "legacy":
            return tx.sig_hash_legacy(i, redeem_script=Script(list(script_code)), hash_type=hash_type)
        if kind == "bip143":
            return tx.sig_hash_bip143(i, witness_script=WitnessScript(list(script_code)), hash_type=hash_type)
        if kind == "bip341":
            # the witness is replaced by a canonical one so that the repository's annex / leaf lookups
            # see exactly what this spec decided: [script, control block(, annex)] or [(sig,) annex]
            if leaf is not None:
                items = [leaf[0], leaf[1]] + ([annex] if annex is not None else [])
                ext = 1
            else:
                items = [b"\x00" * 64, annex] if annex is not None else []
                ext = 0
            tx.tx_ins[i].witness = Witness(items)
            return tx.sig_hash_bip341(i, ext_flag=ext, hash_type=hash_type)
        raise ValueError(kind)


def _ecdsa_sig_ok(digest, kind, script_code, sig, key):
    """a script signature = DER || hash_type byte, checked against the digest for that hash type"""
    if len(sig) < 9:
        return False
    ht = sig[-1]
    try:
        z = digest(kind, ht, script_code=script_code)
    except Exception:      # the digest function cannot produce a message: nothing was signed
        return False
    return ecdsa_ok(key, z, sig[:-1])


TAPROOT_HASH_TYPES = (0x00, 0x01, 0x02, 0x03, 0x81, 0x82, 0x83)


def _schnorr_sig_ok(digest, sig, key, leaf, annex):
    """BIP341 signature validation rules: 64 bytes => SIGHASH_DEFAULT; 65 bytes => explicit type,
    which must be valid and not 0x00"""
    if len(sig) == 64:
        ht, body = 0, sig
    elif len(sig) == 65:
        ht, body = sig[64], sig[:64]
        if ht == 0 or ht not in TAPROOT_HASH_TYPES:
            return False
    else:
        return False
    try:
        msg = digest("bip341", ht, leaf=leaf, annex=annex)
    except Exception:
        return False
    return schnorr_ok(key, msg, body)


def _p2pkh_script_code(h160):
    return [0x76, 0xA9, h160, 0x88, 0xAC]


def authorised_p2pkh(stack, h160, digest, kind="legacy"):
    """stack = what the scriptSig (or the P2WPKH witness) left: top is a public key hashing to the
    committed hash, below it a signature by that key over this transaction"""
    if stack is None or len(stack) < 2:
        return False
    key, sig = stack[-1], stack[-2]
    if _h160(key) != h160:
        return False
    return _ecdsa_sig_ok(digest, kind, _p2pkh_script_code(h160), sig, key)


def authorised_multisig(stack, script_cmds, digest, kind):
    """bare m-of-n script run on `stack`: m signatures on top (script order), one dummy below"""
    mk = parse_multisig(script_cmds)
    if mk is None:
        raise OutOfScope("not a bare multisig script")
    m, keys = mk
    if stack is None or len(stack) < m + 1:
        return False
    sigs = stack[len(stack) - m:]
    return multisig_authorised(sigs, keys, lambda s, k: _ecdsa_sig_ok(digest, kind, script_cmds, s, k))


def _run_inner(stack, script_cmds, digest, kind, clean):
    """redeem script / witness script on the given stack"""
    if parse_multisig(script_cmds) is not None:
        if clean and (stack is None or len(stack) != parse_multisig(script_cmds)[0] + 1):
            return False            # BIP141: exactly one element may remain
        return authorised_multisig(stack, script_cmds, digest, kind)
    st = run_simple(script_cmds, stack)         # signature-free scripts of the simple fragment
    if st is None or not st:
        return False
    if clean and len(st) != 1:
        return False
    return cast_to_bool(st[-1])


def authorised_p2wpkh(desc, program, digest, script_sig_expected):
    d = desc["ins"][desc["index"]]
    if list(d["script_sig"]) != script_sig_expected:   # BIP141: scriptSig exactly empty / exactly the push
        return False
    if len(d["witness"]) != 2:
        return False
    return authorised_p2pkh(list(d["witness"]), program, digest, kind="bip143")


def authorised_p2wsh(desc, program, digest, script_sig_expected):
    d = desc["ins"][desc["index"]]
    if list(d["script_sig"]) != script_sig_expected:
        return False
    w = list(d["witness"])
    if len(w) < 1 or _sha256(w[-1]) != program:
        return False
    cmds = parse_script(w[-1])
    if cmds is None:
        return False
    return _run_inner(w[:-1], cmds, digest, "bip143", clean=True)


def authorised_p2sh(desc, h160, digest):
    """BIP16: scriptSig push-only, its last element is the serialised redeem script hashing to the
    committed value, the redeem script is run on the remaining elements.  Covers p2sh_multisig,
    p2sh_p2wpkh and p2sh_p2wsh (BIP141: scriptSig then is exactly the single push)."""
    d = desc["ins"][desc["index"]]
    ss = list(d["script_sig"])
    if not is_push_only(ss):
        return False
    st = run_simple(ss, [])
    if not st or _h160(st[-1]) != h160:
        return False
    redeem = parse_script(st[-1])
    if redeem is None:
        return False
    kind, prog = classify_spk(redeem)
    if kind == "p2wpkh":
        return authorised_p2wpkh(desc, prog, digest, [st[-1]])
    if kind == "p2wsh":
        return authorised_p2wsh(desc, prog, digest, [st[-1]])
    if kind == "p2tr":
        raise OutOfScope("P2SH-wrapped v1 program (unencumbered by BIP341)")
    return _run_inner(st[:-1], redeem, digest, "legacy", clean=False)


authorised_p2sh_multisig = authorised_p2sh
authorised_p2sh_p2wpkh = authorised_p2sh
authorised_p2sh_p2wsh = authorised_p2sh


def _taproot_witness(desc):
    d = desc["ins"][desc["index"]]
    if list(d["script_sig"]):
        return None, None          # native witness program: scriptSig must be exactly empty
    w = list(d["witness"])
    annex = None
    if has_annex(w):
        annex = w.pop()
    return w, annex


def authorised_p2tr_keypath(desc, program, digest):
    w, annex = _taproot_witness(desc)
    if w is None or len(w) != 1:
        return False
    return _schnorr_sig_ok(digest, w[0], program, None, annex)


def authorised_p2tr_scriptpath(desc, program, digest):
    w, annex = _taproot_witness(desc)
    if w is None or len(w) < 2:
        return False
    cb, script = w[-1], w[-2]
    if not p2tr_commitment_ok(program, cb, script):
        return False
    if cb[0] & 0xFE != 0xC0:
        raise OutOfScope("unknown leaf version (unencumbered by BIP342)")
    cmds = parse_script(script)
    if cmds is None:
        raise OutOfScope("undecodable tapscript")
    stack = w[:-2]
    kn = parse_tap_multisig(cmds)
    if kn is None:
        st = run_simple(cmds, stack)
        return bool(st) and len(st) == 1 and cast_to_bool(st[-1])
    k, keys = kn
    if len(stack) != len(keys):       # clean stack: exactly one signature slot per key
        return False
    count = 0
    for j, key in enumerate(keys):    # the first key consumes the top of the stack
        sig = stack[len(stack) - 1 - j]
        if len(sig) == 0:
            continue
        if not _schnorr_sig_ok(digest, sig, key, (script, cb), annex):
            return False              # BIP342: a non-empty invalid signature fails the script
        count += 1
    if len(keys) == 1:
        return count == 1
    return count == k


def authorised_p2tr(desc, program, digest):
    w, annex = _taproot_witness(desc)
    if w is None or len(w) == 0:
        return False
    if len(w) == 1:
        return authorised_p2tr_keypath(desc, program, digest)
    return authorised_p2tr_scriptpath(desc, program, digest)


def authorised(desc, digest=None):
    """Is input desc["index"] authorised?  True / False; raises OutOfScope when the spend uses
    features outside the modelled fragment (then there is no verdict)."""
    if digest is None:
        digest = RepoDigest(desc)
    d = desc["ins"][desc["index"]]
    kind, prog = classify_spk(list(d["spk"]))
    if kind == "p2pkh":
        return authorised_p2pkh(run_simple(list(d["script_sig"]), []), prog, digest)
    if kind == "p2sh":
        return authorised_p2sh(desc, prog, digest)
    if kind == "p2wpkh":
        return authorised_p2wpkh(desc, prog, digest, [])
    if kind == "p2wsh":
        return authorised_p2wsh(desc, prog, digest, [])
    if kind == "p2tr":
        return authorised_p2tr(desc, prog, digest)
    raise OutOfScope("scriptPubKey is not one of the standard templates")
