"""ECDSA over secp256k1: SEC1 v2 section 4.1.3/4.1.4, RFC 6979 section 3.2 (HMAC-SHA256),
low-S rule of BIP62/BIP146, strict DER of BIP66.  Independent of the repository."""
import hashlib
import hmac

from . import curve
from ._rec import recursive

N = curve.N


def hmac_sha256(key, msg):
    return hmac.new(key, msg, hashlib.sha256).digest()


def ecdsa_verify(pub, z, r, s):
    """SEC1 4.1.4 with e = z (the digest, already an integer below 2^256)"""
    if not (1 <= r < N and 1 <= s < N):
        return False
    w = curve.inv_mod(s, N)
    u1 = z * w % N
    u2 = r * w % N
    pt = curve.add(curve.mul_G(u1), curve.mul(u2, pub))
    if curve.is_inf(pt):
        return False
    return curve.x_of(pt) % N == r


@recursive(returns="int")
def rfc_loop(k, v):
    """RFC 6979 3.2 step h: generate candidates until one lies in [1, q-1]"""
    v = hmac_sha256(k, v)
    cand = int.from_bytes(v, "big")
    if 1 <= cand < N:
        return cand
    k = hmac_sha256(k, v + b"\x00")
    v = hmac_sha256(k, v)
    return rfc_loop(k, v)


def rfc6979_k(d, z):
    """deterministic nonce for private key d and digest integer z (0 <= z < 2^256):
    bits2octets(h1) = int2octets(z mod q) because qlen = hlen = 256"""
    x = d.to_bytes(32, "big")
    h = (z % N).to_bytes(32, "big")
    v = b"\x01" * 32
    k = b"\x00" * 32
    k = hmac_sha256(k, v + b"\x00" + x + h)
    v = hmac_sha256(k, v)
    k = hmac_sha256(k, v + b"\x01" + x + h)
    v = hmac_sha256(k, v)
    return rfc_loop(k, v)


def sign_rs(d, z):
    """(r, s_raw) of SEC1 4.1.3 with the RFC 6979 nonce, before low-S normalisation"""
    k = rfc6979_k(d, z)
    r = curve.x_of(curve.mul_G(k)) % N
    s = curve.inv_mod(k, N) * (z + r * d) % N
    return r, s


def sign_defined(d, z):
    """A-NEGL: the (probability < 2^-120) retry cases of SEC1 4.1.3 do not occur"""
    k = rfc6979_k(d, z)
    x = curve.x_of(curve.mul_G(k))
    r, s = sign_rs(d, z)
    return x < N and r != 0 and s != 0


def low_s(s):
    return s if s <= (N - 1) // 2 else N - s


def der_int(v):
    """DER INTEGER content octets: minimal big-endian two's complement of a non-negative integer"""
    b = v.to_bytes(33, "big").lstrip(b"\x00")
    if len(b) == 0 or b[0] >= 0x80:
        b = b"\x00" + b
    return b


def der(r, s):
    rb, sb = der_int(r), der_int(s)
    body = b"\x02" + bytes([len(rb)]) + rb + b"\x02" + bytes([len(sb)]) + sb
    return b"\x30" + bytes([len(body)]) + body


def der_int_of_bytes(b):
    """DER INTEGER content octets of the non-negative integer whose big-endian bytes are b (leading zero bytes
    allowed): the shortest byte string with the same value whose first bit is clear"""
    i = 0
    while i < len(b) and b[i] == 0:
        i += 1
    b = b[i:]
    if len(b) == 0 or b[0] >= 0x80:
        b = b"\x00" + b
    return b


def der_of_bytes(rb, sb):
    """DER SEQUENCE { INTEGER r, INTEGER s } with r, s given by big-endian bytes"""
    r, s = der_int_of_bytes(rb), der_int_of_bytes(sb)
    body = b"\x02" + bytes([len(r)]) + r + b"\x02" + bytes([len(s)]) + s
    return b"\x30" + bytes([len(body)]) + body
