"""Signature-hash algorithms -- executable spec, independent of the repository.

* legacy: Satoshi's `SignatureHash` / `CTransactionSignatureSerializer` (Bitcoin Core script/interpreter.cpp,
  SigVersion::BASE), including the "one" return values;
* BIP143 (version-0 witness programs);
* BIP341 `SigMsg` / BIP342 extension (taproot key path and script path).

Transactions use the neutral representation of verif/specs/txwire.py:
    tx = (version, ins, outs, locktime), ins[k] = (prev_txid_be, prev_index, script_sig, sequence, witness_items),
    outs[k] = (amount, script_pubkey).
script_code / scriptPubKey arguments are neutral scripts (command list or verbatim bytes).
`spent` (BIP341) is the list [(amount, script_pubkey)] of the outputs spent by ALL inputs, in input order.
"""
import hashlib

from .wire import le, compact_size, varstr, hash256, sha256
from .txwire import script_bytes, script_parse, txout_ser, outpoint_ser, OP_PUSHDATA1, OP_PUSHDATA2, OP_PUSHDATA4

SIGHASH_DEFAULT = 0
SIGHASH_ALL = 1
SIGHASH_NONE = 2
SIGHASH_SINGLE = 3
SIGHASH_ANYONECANPAY = 0x80
STANDARD_TYPES = (1, 2, 3, 0x81, 0x82, 0x83)
TAPROOT_TYPES = (0, 1, 2, 3, 0x81, 0x82, 0x83)

OP_CODESEPARATOR = 0xAB
ONE = b"\x01" + bytes(31)        # uint256 "1" as the 32 hash bytes (little-endian number)
ZERO32 = bytes(32)


# ---------------------------------------------------------------------------- legacy
def strip_codeseparators(raw):
    """the serializer of the original algorithm copies scriptCode without its OP_CODESEPARATOR opcodes
    (opcodes are walked with push data skipped; a truncated trailing push is copied as is)"""
    out = b""
    pos = 0
    n = len(raw)
    while pos < n:
        op = raw[pos]
        start = pos
        pos = pos + 1
        size = 0
        if 1 <= op <= 75:
            size = op
        elif op == OP_PUSHDATA1:
            if pos + 1 > n:
                return out + raw[start:]
            size = raw[pos]
            pos = pos + 1
        elif op == OP_PUSHDATA2:
            if pos + 2 > n:
                return out + raw[start:]
            size = int.from_bytes(raw[pos:pos + 2], "little")
            pos = pos + 2
        elif op == OP_PUSHDATA4:
            if pos + 4 > n:
                return out + raw[start:]
            size = int.from_bytes(raw[pos:pos + 4], "little")
            pos = pos + 4
        if pos + size > n:
            return out + raw[start:]
        pos = pos + size
        if op != OP_CODESEPARATOR:
            out = out + raw[start:pos]
    return out


def legacy_script_code(script_code):
    if isinstance(script_code, bytes):
        return strip_codeseparators(script_code)
    return script_bytes([c for c in script_code if not (isinstance(c, int) and c == OP_CODESEPARATOR)])


def legacy_is_one(tx, i, hash_type):
    """the two cases in which the original algorithm signs the constant 1"""
    if i >= len(tx[1]):
        return True
    if (hash_type & 0x1F) == SIGHASH_SINGLE and i >= len(tx[2]):
        return True
    return False


def legacy_preimage(tx, i, script_code, hash_type):
    """bytes hashed by the original algorithm (None in the `one` cases)"""
    if legacy_is_one(tx, i, hash_type):
        return None
    version, ins, outs, locktime = tx[0], tx[1], tx[2], tx[3]
    base = hash_type & 0x1F
    acp = (hash_type & SIGHASH_ANYONECANPAY) != 0
    s = le(version, 4)
    # inputs
    if acp:
        s = s + compact_size(1)
    else:
        s = s + compact_size(len(ins))
    k = 0
    for inp in ins:
        if (not acp) or k == i:
            s = s + outpoint_ser(inp[0], inp[1])
            if k == i:
                s = s + varstr(legacy_script_code(script_code))
                s = s + le(inp[3], 4)
            else:
                s = s + compact_size(0)
                if base == SIGHASH_SINGLE or base == SIGHASH_NONE:
                    s = s + le(0, 4)
                else:
                    s = s + le(inp[3], 4)
        k = k + 1
    # outputs
    if base == SIGHASH_NONE:
        s = s + compact_size(0)
    elif base == SIGHASH_SINGLE:
        s = s + compact_size(i + 1)
        k = 0
        for o in outs:
            if k < i:
                s = s + b"\xff\xff\xff\xff\xff\xff\xff\xff" + compact_size(0)     # CTxOut(): value -1, empty script
            elif k == i:
                s = s + txout_ser(o)
            k = k + 1
    else:
        s = s + compact_size(len(outs))
        for o in outs:
            s = s + txout_ser(o)
    s = s + le(locktime, 4)
    s = s + le(hash_type, 4)
    return s


def legacy_digest(tx, i, script_code, hash_type):
    """32 bytes that are signed (as hash bytes; a library that reads hashes big-endian sees 1 << 248 for ONE)"""
    if legacy_is_one(tx, i, hash_type):
        return ONE
    return hash256(legacy_preimage(tx, i, script_code, hash_type))


# ---------------------------------------------------------------------------- BIP143
def bip143_hash_prevouts(tx, hash_type):
    if hash_type & SIGHASH_ANYONECANPAY:
        return ZERO32
    s = b""
    for inp in tx[1]:
        s = s + outpoint_ser(inp[0], inp[1])
    return hash256(s)


def bip143_hash_sequence(tx, hash_type):
    base = hash_type & 0x1F
    if (hash_type & SIGHASH_ANYONECANPAY) or base == SIGHASH_SINGLE or base == SIGHASH_NONE:
        return ZERO32
    s = b""
    for inp in tx[1]:
        s = s + le(inp[3], 4)
    return hash256(s)


def bip143_hash_outputs(tx, i, hash_type):
    base = hash_type & 0x1F
    outs = tx[2]
    if base != SIGHASH_SINGLE and base != SIGHASH_NONE:
        s = b""
        for o in outs:
            s = s + txout_ser(o)
        return hash256(s)
    if base == SIGHASH_SINGLE and i < len(outs):
        return hash256(txout_ser(outs[i]))
    return ZERO32


def bip143_preimage(tx, i, script_code, amount, hash_type):
    """BIP143 "Specification", items 1..10.  script_code is the scriptCode of the input (for P2WPKH
    76 a9 14 <20-byte-hash> 88 ac; for P2WSH the witnessScript), serialised as a var-string."""
    inp = tx[1][i]
    return (le(tx[0], 4)
            + bip143_hash_prevouts(tx, hash_type)
            + bip143_hash_sequence(tx, hash_type)
            + outpoint_ser(inp[0], inp[1])
            + varstr(script_bytes(script_code))
            + le(amount, 8)
            + le(inp[3], 4)
            + bip143_hash_outputs(tx, i, hash_type)
            + le(tx[3], 4)
            + le(hash_type, 4))


def bip143_digest(tx, i, script_code, amount, hash_type):
    return hash256(bip143_preimage(tx, i, script_code, amount, hash_type))


def p2pkh_script(h160):
    return b"\x76\xa9\x14" + h160 + b"\x88\xac"


# ---------------------------------------------------------------------------- BIP340 tagged hashes / BIP341
def tagged_hash(tag, msg):
    t = hashlib.sha256(tag).digest()
    return hashlib.sha256(t + t + msg).digest()


def tapleaf_hash(leaf_version, script):
    """BIP341: hash_TapLeaf(v || compact_size(size of s) || s) over the script bytes as they appear in the witness"""
    return tagged_hash(b"TapLeaf", le(leaf_version, 1) + varstr(script_bytes(script)))


def bip341_valid(tx, i, hash_type):
    """BIP341: hash_type outside the seven values, or SINGLE without a corresponding output, fails validation"""
    if hash_type not in TAPROOT_TYPES:
        return False
    if (hash_type & 3) == SIGHASH_SINGLE and i >= len(tx[2]):
        return False
    return True


def bip341_sigmsg(tx, i, spent, hash_type, ext_flag, annex):
    """SigMsg(hash_type, ext_flag) of BIP341 "Common signature message".
    annex: None, or the annex bytes including the 0x50 prefix."""
    ins, outs = tx[1], tx[2]
    acp = (hash_type & SIGHASH_ANYONECANPAY) != 0
    out_type = hash_type & 3
    s = le(hash_type, 1)
    s = s + le(tx[0], 4) + le(tx[3], 4)
    if not acp:
        a = b""
        b = b""
        c = b""
        d = b""
        k = 0
        for inp in ins:
            a = a + outpoint_ser(inp[0], inp[1])
            b = b + le(spent[k][0], 8)
            c = c + varstr(script_bytes(spent[k][1]))
            d = d + le(inp[3], 4)
            k = k + 1
        s = s + sha256(a) + sha256(b) + sha256(c) + sha256(d)
    if out_type != SIGHASH_NONE and out_type != SIGHASH_SINGLE:
        o = b""
        for out in outs:
            o = o + txout_ser(out)
        s = s + sha256(o)
    spend_type = ext_flag * 2 + (0 if annex is None else 1)
    s = s + le(spend_type, 1)
    inp = ins[i]
    if acp:
        s = s + outpoint_ser(inp[0], inp[1]) + le(spent[i][0], 8) + varstr(script_bytes(spent[i][1])) + le(inp[3], 4)
    else:
        s = s + le(i, 4)
    if annex is not None:
        s = s + sha256(varstr(annex))
    if out_type == SIGHASH_SINGLE:
        s = s + sha256(txout_ser(outs[i]))
    return s


def bip342_ext(leaf_hash, key_version, codesep_pos):
    """BIP342 extension appended for ext_flag = 1"""
    return leaf_hash + le(key_version, 1) + le(codesep_pos, 4)


def bip341_message(tx, i, spent, hash_type, ext_flag, annex, leaf_hash=None, key_version=0, codesep_pos=0xFFFFFFFF):
    """the bytes fed to hash_TapSighash: epoch 0x00 || SigMsg || (extension when ext_flag = 1)"""
    s = b"\x00" + bip341_sigmsg(tx, i, spent, hash_type, ext_flag, annex)
    if ext_flag == 1:
        s = s + bip342_ext(leaf_hash, key_version, codesep_pos)
    return s


def bip341_digest(tx, i, spent, hash_type, ext_flag, annex, leaf_hash=None, key_version=0, codesep_pos=0xFFFFFFFF):
    """None when BIP341 says validation fails"""
    if not bip341_valid(tx, i, hash_type):
        return None
    return tagged_hash(b"TapSighash", bip341_message(tx, i, spent, hash_type, ext_flag, annex, leaf_hash, key_version, codesep_pos))


# ---------------------------------------------------------------------------- which digest a spend calls for
def _is_push(c, n):
    return isinstance(c, bytes) and len(c) == n


def classify(spk):
    """kind of a scriptPubKey given as command list"""
    if len(spk) == 5 and spk[0] == 0x76 and spk[1] == 0xA9 and _is_push(spk[2], 20) and spk[3] == 0x88 and spk[4] == 0xAC:
        return "p2pkh"
    if len(spk) == 3 and spk[0] == 0xA9 and _is_push(spk[1], 20) and spk[2] == 0x87:
        return "p2sh"
    if len(spk) == 2 and spk[0] == 0 and _is_push(spk[1], 20):
        return "p2wpkh"
    if len(spk) == 2 and spk[0] == 0 and _is_push(spk[1], 32):
        return "p2wsh"
    if len(spk) == 2 and spk[0] == 0x51 and _is_push(spk[1], 32):
        return "p2tr"
    return "other"


def taproot_annex(witness_items):
    """BIP341: with at least two witness elements, a last element starting with 0x50 is the annex"""
    if len(witness_items) >= 2 and len(witness_items[-1]) > 0 and witness_items[-1][0] == 0x50:
        return witness_items[-1]
    return None


def spend_digest(tx, i, spent, hash_type):
    """digest (32 bytes, or None = validation fails) the input `i` of `tx` has to sign/verify, chosen from the
    output it spends (spent[i]) as BIP16/BIP141/BIP143/BIP341 prescribe.  Scripts are command lists;
    for P2SH the redeem script is the last push of scriptSig, for P2WSH the last witness item."""
    inp = tx[1][i]
    amount, spk = spent[i]
    kind = classify(spk)
    if kind == "p2wpkh":
        return bip143_digest(tx, i, p2pkh_script(spk[1]), amount, hash_type)
    if kind == "p2wsh":
        return bip143_digest(tx, i, inp[4][-1], amount, hash_type)
    if kind == "p2tr":
        items = list(inp[4])
        annex = taproot_annex(items)
        if annex is not None:
            items = items[:-1]
        if len(items) == 1:
            return bip341_digest(tx, i, spent, hash_type, 0, annex)
        control, script = items[-1], items[-2]
        leaf = tapleaf_hash(control[0] & 0xFE, script)
        return bip341_digest(tx, i, spent, hash_type, 1, annex, leaf, 0, 0xFFFFFFFF)
    if kind == "p2sh":
        redeem_raw = inp[2][-1]
        redeem = script_parse(redeem_raw)
        rkind = classify(redeem) if redeem is not None else "other"
        if rkind == "p2wpkh":
            return bip143_digest(tx, i, p2pkh_script(redeem[1]), amount, hash_type)
        if rkind == "p2wsh":
            return bip143_digest(tx, i, inp[4][-1], amount, hash_type)
        return legacy_digest(tx, i, redeem_raw, hash_type)
    return legacy_digest(tx, i, spk, hash_type)


# ---------------------------------------------------------------------------- helpers for contract clauses
def bip341_digest_for_witness(tx, i, spent, hash_type, ext_flag):
    """BIP341 digest of input i with the annex (and, for ext_flag 1, the tapleaf) taken from the input's
    witness as BIP341 prescribes: annex = last element iff there are >= 2 elements and it starts with 0x50;
    script path: [... script, control block] after removing the annex, leaf version = control[0] & 0xfe."""
    items = list(tx[1][i][4])
    annex = taproot_annex(items)
    if annex is not None:
        items = items[:-1]
    if ext_flag == 0:
        return bip341_digest(tx, i, spent, hash_type, 0, annex)
    leaf = tapleaf_hash(items[-1][0] & 0xFE, items[-2])
    return bip341_digest(tx, i, spent, hash_type, 1, annex, leaf, 0, 0xFFFFFFFF)


def library_value(digest, kind):
    """how the library hands a digest to its callers: taproot digests as 32 bytes, the others as the integer
    of the hash bytes read big-endian"""
    if kind == "p2tr":
        return digest
    return int.from_bytes(digest, "big")


def set_out_amount(tx, k, amount):
    outs = list(tx[2])
    outs[k] = (amount, outs[k][1])
    return (tx[0], tx[1], outs, tx[3])


def set_sequence(tx, k, sequence):
    ins = list(tx[1])
    ins[k] = (ins[k][0], ins[k][1], ins[k][2], sequence, ins[k][4])
    return (tx[0], ins, tx[2], tx[3])


def set_prev_index(tx, k, index):
    ins = list(tx[1])
    ins[k] = (ins[k][0], index, ins[k][2], ins[k][3], ins[k][4])
    return (tx[0], ins, tx[2], tx[3])


def set_spent_amount(spent, k, amount):
    sp = list(spent)
    sp[k] = (amount, sp[k][1])
    return sp
