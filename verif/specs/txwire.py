"""Transaction wire format -- executable spec written from the Bitcoin protocol documentation
("tx", "TxIn", "TxOut", "Variable length integer"), BIP141 ("Transaction ID", witness program
serialisation) and BIP144 (marker/flag/witness section), independent of the repository.

Neutral transaction representation (plain Python data, no library objects):

    tx   = (version, ins, outs, locktime)
    ins  = [ (prev_txid_be, prev_index, script_sig, sequence, witness_items), ... ]
    outs = [ (amount, script_pubkey), ... ]

    prev_txid_be   32 bytes in display (big-endian) order -- the wire carries it reversed
    script_sig / script_pubkey
                   either a list of commands (int = one opcode byte, bytes = one data push, emitted
                   with the minimal push opcode) or a bytes object = the raw script bytes verbatim
    witness_items  list of bytes (the witness stack of that input, bottom first)

The adapters `of_tx`, `of_txin`, `of_txout`, `of_script` read the *fields* of the library's objects
and never call a serialiser of the library.
"""
from .wire import le, compact_size, varstr, hash256

OP_PUSHDATA1 = 0x4C
OP_PUSHDATA2 = 0x4D
OP_PUSHDATA4 = 0x4E
MAX_SCRIPT_ELEMENT_SIZE = 520


# ---------------------------------------------------------------------------- scripts
def push(b):
    """minimal data push (Bitcoin Core CScript::operator<<(vector)): the opcodes 0x00..0x4b push that
    many bytes; OP_PUSHDATA1/2/4 carry a 1/2/4-byte little-endian length"""
    n = len(b)
    if n <= 75:
        return le(n, 1) + b
    if n <= 0xFF:
        return b"\x4c" + le(n, 1) + b
    if n <= 0xFFFF:
        return b"\x4d" + le(n, 2) + b
    return b"\x4e" + le(n, 4) + b


def script_ser(cmds):
    """raw script bytes (no length prefix) of a command list"""
    out = b""
    for c in cmds:
        if isinstance(c, int):
            out = out + le(c, 1)
        else:
            out = out + push(c)
    return out


def script_bytes(s):
    """raw script bytes of a neutral script (command list or verbatim bytes)"""
    if isinstance(s, bytes):
        return s
    return script_ser(s)


def script_parse(raw):
    """command list of raw script bytes, or None when a push runs past the end.
    Opcode 0x00 (OP_0) is the int 0; every data push -- minimal or not -- becomes a bytes command."""
    cmds = []
    pos = 0
    n = len(raw)
    while pos < n:
        op = raw[pos]
        pos = pos + 1
        if 1 <= op <= 75:
            size = op
        elif op == OP_PUSHDATA1:
            if pos + 1 > n:
                return None
            size = raw[pos]
            pos = pos + 1
        elif op == OP_PUSHDATA2:
            if pos + 2 > n:
                return None
            size = int.from_bytes(raw[pos:pos + 2], "little")
            pos = pos + 2
        elif op == OP_PUSHDATA4:
            if pos + 4 > n:
                return None
            size = int.from_bytes(raw[pos:pos + 4], "little")
            pos = pos + 4
        else:
            cmds.append(op)
            continue
        if pos + size > n:
            return None
        cmds.append(raw[pos:pos + size])
        pos = pos + size
    return cmds


def canon(cmds):
    """what a command list reads back as after script_ser: the empty push IS the opcode OP_0"""
    out = []
    for c in cmds:
        if isinstance(c, int):
            out.append(c)
        elif len(c) == 0:
            out.append(0)
        else:
            out.append(c)
    return out


def cmds_ok(cmds, max_push=MAX_SCRIPT_ELEMENT_SIZE):
    """command lists of the property's quantifier: opcodes that are not push opcodes (0 or 79..255),
    pushes of 0..max_push bytes"""
    for c in cmds:
        if isinstance(c, int):
            if not (c == 0 or 79 <= c <= 255):
                return False
        elif len(c) > max_push:
            return False
    return True


# ---------------------------------------------------------------------------- tx parts
def witness_ser(items):
    """BIP144 witness field of one input: compact-size item count, then each item as var-string"""
    out = compact_size(len(items))
    for it in items:
        out = out + varstr(it)
    return out


def outpoint_ser(prev_txid_be, prev_index):
    return prev_txid_be[::-1] + le(prev_index, 4)


def txin_ser(i):
    return outpoint_ser(i[0], i[1]) + varstr(script_bytes(i[2])) + le(i[3], 4)


def txout_ser(o):
    return le(o[0], 8) + varstr(script_bytes(o[1]))


def ins_ser(ins):
    out = compact_size(len(ins))
    for i in ins:
        out = out + txin_ser(i)
    return out


def outs_ser(outs):
    out = compact_size(len(outs))
    for o in outs:
        out = out + txout_ser(o)
    return out


def legacy_ser(tx):
    """original ("witness-stripped") serialisation: version | ins | outs | locktime"""
    return le(tx[0], 4) + ins_ser(tx[1]) + outs_ser(tx[2]) + le(tx[3], 4)


def witnesses_ser(ins):
    out = b""
    for i in ins:
        out = out + witness_ser(i[4])
    return out


def segwit_ser(tx):
    """BIP144: version | marker 00 | flag 01 | ins | outs | one witness field per input | locktime"""
    return le(tx[0], 4) + b"\x00\x01" + ins_ser(tx[1]) + outs_ser(tx[2]) + witnesses_ser(tx[1]) + le(tx[3], 4)


def has_witness(tx):
    for i in tx[1]:
        if len(i[4]) > 0:
            return True
    return False


def wire_ser(tx):
    """BIP144: the witness serialisation is used iff some input has a non-empty witness"""
    if has_witness(tx):
        return segwit_ser(tx)
    return legacy_ser(tx)


def txid_bytes(tx):
    """BIP141 txid: double-SHA256 of the witness-stripped serialisation, byte-reversed for display"""
    return hash256(legacy_ser(tx))[::-1]


def txid(tx):
    return txid_bytes(tx).hex()


def wtxid_bytes(tx):
    return hash256(wire_ser(tx))[::-1]


# ---------------------------------------------------------------------------- independent parser
def _rd_compact(raw, pos):
    b0 = raw[pos]
    if b0 < 0xFD:
        return b0, pos + 1
    if b0 == 0xFD:
        return int.from_bytes(raw[pos + 1:pos + 3], "little"), pos + 3
    if b0 == 0xFE:
        return int.from_bytes(raw[pos + 1:pos + 5], "little"), pos + 5
    return int.from_bytes(raw[pos + 1:pos + 9], "little"), pos + 9


def _rd_varstr(raw, pos):
    n, pos = _rd_compact(raw, pos)
    if pos + n > len(raw):
        raise ValueError("truncated")
    return raw[pos:pos + n], pos + n


def tx_parse(raw):
    """(tx, bytes_consumed) with scripts kept as verbatim bytes.  BIP144 detection: a zero byte where the
    input count would be is the marker (a transaction with no inputs cannot be told apart and is read as
    segwit, as in Bitcoin Core)."""
    pos = 4
    version = int.from_bytes(raw[0:4], "little")
    segwit = raw[4] == 0
    if segwit:
        if raw[5] != 1:
            raise ValueError("bad flag")
        pos = 6
    n_in, pos = _rd_compact(raw, pos)
    ins = []
    for _ in range(n_in):
        prev = raw[pos:pos + 32][::-1]
        idx = int.from_bytes(raw[pos + 32:pos + 36], "little")
        script, pos = _rd_varstr(raw, pos + 36)
        seq = int.from_bytes(raw[pos:pos + 4], "little")
        pos = pos + 4
        ins.append([prev, idx, script, seq, []])
    n_out, pos = _rd_compact(raw, pos)
    outs = []
    for _ in range(n_out):
        amount = int.from_bytes(raw[pos:pos + 8], "little")
        script, pos = _rd_varstr(raw, pos + 8)
        outs.append((amount, script))
    if segwit:
        for i in ins:
            n_items, pos = _rd_compact(raw, pos)
            for _ in range(n_items):
                it, pos = _rd_varstr(raw, pos)
                i[4].append(it)
    if pos + 4 > len(raw):
        raise ValueError("truncated")
    locktime = int.from_bytes(raw[pos:pos + 4], "little")
    return (version, [tuple(i) for i in ins], outs, locktime), pos + 4


# ---------------------------------------------------------------------------- adapters (read fields only)
def of_script(s):
    """neutral script of a library Script object: its command list, or the verbatim bytes the
    parser kept in `.raw` when the script is not a well-formed opcode sequence"""
    if s.raw:
        return s.raw
    return list(s.commands)


def of_txin(ti):
    return (ti.prev_tx, ti.prev_index, of_script(ti.script_sig), ti.sequence, list(ti.witness.items))


def of_txout(to):
    return (to.amount, of_script(to.script_pubkey))


def of_tx(tx):
    return (tx.version, [of_txin(ti) for ti in tx.tx_ins], [of_txout(to) for to in tx.tx_outs], tx.locktime)


def strip_witness(tx):
    return (tx[0], [(i[0], i[1], i[2], i[3], []) for i in tx[1]], tx[2], tx[3])


def same_script(a, b):
    """equality of neutral scripts as byte strings"""
    return script_bytes(a) == script_bytes(b)


def same_tx(a, b):
    """field-by-field equality of two neutral transactions (scripts compared as bytes)"""
    if a[0] != b[0] or a[3] != b[3] or len(a[1]) != len(b[1]) or len(a[2]) != len(b[2]):
        return False
    for x, y in zip(a[1], b[1]):
        if x[0] != y[0] or x[1] != y[1] or x[3] != y[3] or list(x[4]) != list(y[4]):
            return False
        if not same_script(x[2], y[2]):
            return False
    for x, y in zip(a[2], b[2]):
        if x[0] != y[0] or not same_script(x[1], y[1]):
            return False
    return True


# ---------------------------------------------------------------------------- expected parse results
def script_fields(s):
    """(commands, raw) a faithful parser yields for a well-formed neutral script: the command list with
    b"" read back as OP_0 and no verbatim fallback"""
    return (canon(s), None)


def txin_fields(i, with_witness):
    return (i[0], i[1], script_fields(i[2]), le(i[3], 4), list(i[4]) if with_witness else [])


def txout_fields(o):
    return (o[0], script_fields(o[1]))


def tx_fields(tx, segwit):
    """field view (as produced by verif/harness/txcodec.tx_view) of the transaction a faithful parser returns
    for legacy_ser(tx) (segwit False: witnesses are not on the wire) or segwit_ser(tx) (segwit True)"""
    return (tx[0], [txin_fields(i, segwit) for i in tx[1]], [txout_fields(o) for o in tx[2]], le(tx[3], 4), segwit)
