"""Filter spec functions, independent of the repository:
* SipHash-2-4 from Aumasson & Bernstein, "SipHash: a fast short-input PRF" (section 2), 64-bit words;
* MurmurHash3_x86_32 from Appleby's reference MurmurHash3.cpp (uint32 arithmetic);
* BIP158 (Golomb-Rice coded sets, P = 19, M = 784931, basic filter key/encoding, BIP157 header chain);
* BIP37 bloom filters (bit positions, filterload layout).
All arithmetic is written with explicit masks so that the same text is valid for unbounded Python
ints and for the 64-bit bit-vector mode of pyvc."""
import hashlib
from ._rec import recursive

M64 = 0xFFFFFFFFFFFFFFFF
M32 = 0xFFFFFFFF


# ---------------------------------------------------------------------------- SipHash-2-4
def rotl64(x, r):
    return ((x << r) & M64) | (x >> (64 - r))


def sipround(v0, v1, v2, v3):
    """one SipRound (figure 2.1 of the paper)"""
    v0 = (v0 + v1) & M64
    v1 = rotl64(v1, 13)
    v1 = v1 ^ v0
    v0 = rotl64(v0, 32)
    v2 = (v2 + v3) & M64
    v3 = rotl64(v3, 16)
    v3 = v3 ^ v2
    v0 = (v0 + v3) & M64
    v3 = rotl64(v3, 21)
    v3 = v3 ^ v0
    v2 = (v2 + v1) & M64
    v1 = rotl64(v1, 17)
    v1 = v1 ^ v2
    v2 = rotl64(v2, 32)
    return (v0, v1, v2, v3)


def sip_compress(v0, v1, v2, v3, m):
    """absorb one 64-bit word with c = 2 rounds: v3 ^= m; 2 x SipRound; v0 ^= m"""
    v3 = v3 ^ m
    v0, v1, v2, v3 = sipround(v0, v1, v2, v3)
    v0, v1, v2, v3 = sipround(v0, v1, v2, v3)
    v0 = v0 ^ m
    return (v0, v1, v2, v3)


def sip_init(k0, k1):
    return (k0 ^ 0x736F6D6570736575, k1 ^ 0x646F72616E646F6D,
            k0 ^ 0x6C7967656E657261, k1 ^ 0x7465646279746573)


def sip_finalize(v0, v1, v2, v3):
    """d = 4 finalisation rounds after v2 ^= 0xff"""
    v2 = v2 ^ 0xFF
    v0, v1, v2, v3 = sipround(v0, v1, v2, v3)
    v0, v1, v2, v3 = sipround(v0, v1, v2, v3)
    v0, v1, v2, v3 = sipround(v0, v1, v2, v3)
    v0, v1, v2, v3 = sipround(v0, v1, v2, v3)
    return v0 ^ v1 ^ v2 ^ v3


def sip_last_word(tail, total_len):
    """final word: the remaining (total_len mod 8) bytes little-endian, top byte = total_len mod 256"""
    return ((total_len & 0xFF) << 56) | int.from_bytes(tail, "little")


def siphash24(key, data):
    """SipHash-2-4 of `data` under the 16-byte key -> 64-bit integer"""
    k0 = int.from_bytes(key[0:8], "little")
    k1 = int.from_bytes(key[8:16], "little")
    v0, v1, v2, v3 = sip_init(k0, k1)
    n = len(data)
    full = n - n % 8
    for off in range(0, full, 8):
        m = int.from_bytes(data[off:off + 8], "little")
        v0, v1, v2, v3 = sip_compress(v0, v1, v2, v3, m)
    b = sip_last_word(data[full:], n)
    v0, v1, v2, v3 = sip_compress(v0, v1, v2, v3, b)
    return sip_finalize(v0, v1, v2, v3)


def siphash24_digest(key, data):
    """the 8 output bytes (little-endian, as in the reference implementation's test vectors)"""
    return siphash24(key, data).to_bytes(8, "little")


# ---------------------------------------------------------------------------- MurmurHash3_x86_32
def rotl32(x, r):
    return ((x << r) & M32) | (x >> (32 - r))


def murmur_k(k1):
    k1 = (k1 * 0xCC9E2D51) & M32
    k1 = rotl32(k1, 15)
    k1 = (k1 * 0x1B873593) & M32
    return k1


def fmix32(h):
    h = h ^ (h >> 16)
    h = (h * 0x85EBCA6B) & M32
    h = h ^ (h >> 13)
    h = (h * 0xC2B2AE35) & M32
    h = h ^ (h >> 16)
    return h


def murmur3_32(data, seed):
    """MurmurHash3_x86_32(key=data, len, seed); seed is a uint32 (larger values wrap, as the
    uint32_t parameter of the reference does)"""
    h1 = seed & M32
    n = len(data)
    nblocks = n // 4
    for i in range(nblocks):
        k1 = int.from_bytes(data[4 * i:4 * i + 4], "little")
        h1 = h1 ^ murmur_k(k1)
        h1 = rotl32(h1, 13)
        h1 = (h1 * 5 + 0xE6546B64) & M32
    tail = data[4 * nblocks:]
    if n % 4 != 0:
        h1 = h1 ^ murmur_k(int.from_bytes(tail, "little"))
    h1 = h1 ^ (n & M32)
    return fmix32(h1)


@recursive(returns="int:32", fuel=1)
def murmur3_blocks(data, h0, k):
    """MurmurHash3_x86_32 body: the 32-bit state after the first k little-endian 4-byte blocks of data, from state h0"""
    if k == 0:
        return h0
    h1 = murmur3_blocks(data, h0, k - 1)
    j = 4 * (k - 1)
    k1 = data[j] | (data[j + 1] << 8) | (data[j + 2] << 16) | (data[j + 3] << 24)
    h1 = h1 ^ murmur_k(k1)
    h1 = rotl32(h1, 13)
    return (h1 * 5 + 0xE6546B64) & M32


def murmur3_32_r(data, seed):
    """murmur3_32 with the block loop written as the recursion murmur3_blocks (for inputs of any length); equality with
    murmur3_32 is checked by the C18 table job on every run"""
    n = len(data)
    nb = n // 4
    h1 = murmur3_blocks(data, seed & M32, nb)
    r = n % 4
    if r != 0:
        j = 4 * nb
        k1 = data[j]
        if r >= 2:
            k1 = k1 | (data[j + 1] << 8)
        if r == 3:
            k1 = k1 | (data[j + 2] << 16)
        h1 = h1 ^ murmur_k(k1)
    h1 = h1 ^ (n & M32)
    return fmix32(h1)


# ---------------------------------------------------------------------------- BIP158
GCS_P = 19
GCS_M = 784931


def hash_to_range(key, item, f):
    """BIP158 hash_to_range: (siphash(k, item) * F) >> 64"""
    return (siphash24(key, item) * f) >> 64


def golomb_bits(x, p):
    """golomb_encode: quotient x >> p in unary (ones, then a zero), then the low p bits of x
    most significant first"""
    out = []
    q = x >> p
    for _ in range(q):
        out.append(1)
    out.append(0)
    for i in range(p):
        out.append((x >> (p - 1 - i)) & 1)
    return out


def golomb_decode(bits, pos, p):
    """golomb_decode at bit offset pos -> (value, new offset)"""
    q = 0
    while bits[pos] == 1:
        q += 1
        pos += 1
    pos += 1
    r = 0
    for _ in range(p):
        r = (r << 1) | bits[pos]
        pos += 1
    return (q << p) + r, pos


def bits_to_bytes_msb(bits):
    """bit stream: first written bit is the most significant bit of the first byte; the last
    byte is padded with zero bits"""
    out = bytearray((len(bits) + 7) // 8)
    for i, b in enumerate(bits):
        if b:
            out[i // 8] |= 0x80 >> (i % 8)
    return bytes(out)


def bytes_to_bits_msb(data):
    out = []
    for byte in data:
        for k in range(8):
            out.append((byte >> (7 - k)) & 1)
    return out


def compact_size(n):
    if n < 0xFD:
        return n.to_bytes(1, "little")
    if n <= 0xFFFF:
        return b"\xfd" + n.to_bytes(2, "little")
    if n <= 0xFFFFFFFF:
        return b"\xfe" + n.to_bytes(4, "little")
    return b"\xff" + n.to_bytes(8, "little")


def gcs_hashed_set(key, items, n):
    """hashed_set_construct with F = N * M, sorted ascending (duplicates kept)"""
    f = n * GCS_M
    return sorted([hash_to_range(key, it, f) for it in items])


def gcs_encode_values(values):
    """Golomb-Rice code the successive differences of an ascending list; N as CompactSize prefix"""
    bits = []
    last = 0
    for v in values:
        bits = bits + golomb_bits(v - last, GCS_P)
        last = v
    return compact_size(len(values)) + bits_to_bytes_msb(bits)


def gcs_build(key, items):
    """BIP158 filter bytes for the element *set* `items` (N = number of distinct elements;
    the caller removes empty scripts for block filters)"""
    elems = []
    for it in items:
        if it not in elems:
            elems.append(it)
    return gcs_encode_values(gcs_hashed_set(key, elems, len(elems)))


def gcs_build_list(key, items):
    """same coding for a list taken as is (N = len(items), duplicates hashed twice)"""
    return gcs_encode_values(gcs_hashed_set(key, items, len(items)))


def read_compact_size(data):
    """-> (value, bytes consumed)"""
    b0 = data[0]
    if b0 < 0xFD:
        return b0, 1
    if b0 == 0xFD:
        return int.from_bytes(data[1:3], "little"), 3
    if b0 == 0xFE:
        return int.from_bytes(data[1:5], "little"), 5
    return int.from_bytes(data[1:9], "little"), 9


def gcs_decode(data):
    """-> (N, ascending list of the N values)"""
    n, used = read_compact_size(data)
    bits = bytes_to_bits_msb(data[used:])
    pos = 0
    out = []
    last = 0
    for _ in range(n):
        d, pos = golomb_decode(bits, pos, GCS_P)
        last += d
        out.append(last)
    return n, out


def gcs_match(key, data, item):
    """BIP158 membership query against encoded filter bytes: F = N * M with the N *of the filter*"""
    n, values = gcs_decode(data)
    if n == 0:
        return False
    return hash_to_range(key, item, n * GCS_M) in values


def basic_filter_key(block_hash_display):
    """BIP158: k = first 16 bytes of the block hash in little-endian (internal) order"""
    return block_hash_display[::-1][:16]


def dsha256(b):
    return hashlib.sha256(hashlib.sha256(b).digest()).digest()


def filter_hash(filter_bytes):
    return dsha256(filter_bytes)


def filter_header(filter_hash32, prev_header32):
    """BIP157: header = SHA256d(filter_hash || previous_header)"""
    return dsha256(filter_hash32 + prev_header32)


def filter_header_chain(prev_header32, filter_hashes):
    cur = prev_header32
    for fh in filter_hashes:
        cur = filter_header(fh, cur)
    return cur


# ---------------------------------------------------------------------------- BIP37 bloom filter
BLOOM_C = 0xFBA4C795


def bloom_seed(i, tweak):
    """nHashNum * 0xFBA4C795 + nTweak in uint32 arithmetic"""
    return (i * BLOOM_C + tweak) & M32


def bloom_bit(item, i, tweak, size):
    """index of the bit set by hash function i in a filter of `size` bytes"""
    return murmur3_32(item, bloom_seed(i, tweak)) % (size * 8)


def bloom_positions(item, function_count, tweak, size):
    return [bloom_bit(item, i, tweak, size) for i in range(function_count)]


def bloom_bytes(items, size, function_count, tweak):
    """vData after inserting items: bit n of the filter is bit (n & 7) of byte n >> 3"""
    data = bytearray(size)
    for it in items:
        for i in range(function_count):
            n = bloom_bit(it, i, tweak, size)
            data[n >> 3] |= 1 << (n & 7)
    return bytes(data)


def bloom_contains(data, item, function_count, tweak):
    size = len(data)
    for i in range(function_count):
        n = bloom_bit(item, i, tweak, size)
        if not (data[n >> 3] >> (n & 7)) & 1:
            return False
    return True


def filterload_payload(data, function_count, tweak, flags):
    """filterload: var_bytes filter, nHashFuncs uint32, nTweak uint32, nFlags uint8"""
    return (compact_size(len(data)) + data + function_count.to_bytes(4, "little")
            + tweak.to_bytes(4, "little") + flags.to_bytes(1, "little"))


# ---------------------------------------------------------------------------- list-level helpers for clauses
def gcs_match_all(key, data, queries):
    return [gcs_match(key, data, q) for q in queries]


def set_bits(bit_field):
    """indices of the non-zero entries of a bit list"""
    return [i for i in range(len(bit_field)) if bit_field[i]]


def bloom_position_set(item, function_count, tweak, size):
    return sorted(set(bloom_positions(item, function_count, tweak, size)))


def bloom_contains_all(data, items, function_count, tweak):
    ok = True
    for it in items:
        if not bloom_contains(data, it, function_count, tweak):
            ok = False
    return ok


def bits_monotone(before, after):
    """no bit is cleared"""
    if len(before) != len(after):
        return False
    for i in range(len(before)):
        if before[i] and not after[i]:
            return False
    return True


def all_in(xs, allowed):
    for x in xs:
        if x not in allowed:
            return False
    return True


def truthy01(bits):
    return [1 if b else 0 for b in bits]
