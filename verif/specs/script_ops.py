"""Script-interpreter spec functions (property C07), written from Bitcoin Core's
src/script/interpreter.cpp (EvalScript, CastToBool, CheckLockTime, CheckSequence),
src/script/script.h (CScriptNum, opcodetype) and BIP65 / BIP68 / BIP112 / BIP342 --
independent of the repository.  Executable Python in the pyvc subset: the same text is
the SMT term, the replay oracle and the oracle of the bounded companion.

Stacks are Python lists of bytes, bottom first (stack[-1] is Core's stacktop(-1)).
Every opcode function takes (stack, altstack) and returns (ok, new_stack, new_altstack);
the inputs are never mutated.  When ok is False the script has failed and the returned
stacks carry no meaning (they are the inputs, unchanged)."""
import hashlib

MAX_NUM_SIZE = 4                 # CScriptNum::nDefaultMaxNumSize
MAX_ELEMENT_SIZE = 520           # MAX_SCRIPT_ELEMENT_SIZE
MAX_STACK_SIZE = 1000            # MAX_STACK_SIZE (stack + altstack)
MAX_OPS_PER_SCRIPT = 201
LOCKTIME_THRESHOLD = 500000000
SEQUENCE_FINAL = 0xFFFFFFFF
SEQUENCE_LOCKTIME_DISABLE_FLAG = 1 << 31
SEQUENCE_LOCKTIME_TYPE_FLAG = 1 << 22
SEQUENCE_LOCKTIME_MASK = 0x0000FFFF


# ---------------------------------------------------------------------------- values
def cast_to_bool(b):
    """interpreter.cpp CastToBool: false iff every byte is zero, where the last byte may
    also be 0x80 (negative zero)"""
    n = len(b)
    for i in range(n):
        if b[i] != 0:
            if i == n - 1 and b[i] == 0x80:
                return False
            return True
    return False


def scriptnum_enc(n):
    """CScriptNum::serialize: little-endian sign-magnitude of minimal length; zero is the
    empty string.  Formulated as: the shortest k with |n| < 2**(8k-1), magnitude in the low
    8k-1 bits, sign in the top bit of the last byte."""
    if n == 0:
        return b""
    mag = -n if n < 0 else n
    k = 1
    while mag >= 2 ** (8 * k - 1):
        k += 1
    if n < 0:
        mag = mag + 2 ** (8 * k - 1)
    return mag.to_bytes(k, "little")


def scriptnum_dec(b):
    """CScriptNum::set_vch without the size / minimality checks: little-endian magnitude,
    top bit of the last byte is the sign (so b'\\x80' and b'\\x00\\x80' are zero).
    Written byte-wise (sum of b[i] * 256**i) so that the symbolic engine sees the bytes."""
    k = len(b)
    if k == 0:
        return 0
    v = 0
    for i in range(k - 1):
        v = v + b[i] * 256 ** i
    top = b[k - 1]
    if top >= 0x80:
        return -(v + (top - 0x80) * 256 ** (k - 1))
    return v + top * 256 ** (k - 1)


def is_minimal_num(b):
    """script.h CScriptNum constructor, fRequireMinimal test (used to state minimality of the
    encoder; minimal encoding of *operands* is policy, not consensus)"""
    k = len(b)
    if k == 0:
        return True
    if b[k - 1] & 0x7F == 0:
        if k == 1:
            return False
        if b[k - 2] & 0x80 == 0:
            return False
    return True


def same_bytes(a, b):
    """a == b stated byte by byte (equal length and equal bytes at every index)"""
    if len(a) != len(b):
        return False
    for i in range(len(a)):
        if a[i] != b[i]:
            return False
    return True


def num_ok(b):
    """operand accepted as a number by an arithmetic opcode (consensus: at most 4 bytes)"""
    return len(b) <= MAX_NUM_SIZE


def _bool(v):
    return b"\x01" if v else b""


def same_outcome(real, expected):
    """real / expected are (ok, stack, altstack): the success flags agree and, on success, so do
    both stacks (after a failure the stacks are unobservable)"""
    if real[0] != expected[0]:
        return False
    if not expected[0]:
        return True
    return real[1] == expected[1] and real[2] == expected[2]


# ---------------------------------------------------------------------------- constants
def op_const(n, stack, alt):
    """OP_0, OP_1NEGATE, OP_1..OP_16 push CScriptNum(n)"""
    return True, stack + [scriptnum_enc(n)], alt


def op_nop(stack, alt):
    return True, stack, alt


def op_verify(stack, alt):
    if len(stack) < 1:
        return False, stack, alt
    if not cast_to_bool(stack[-1]):
        return False, stack, alt
    return True, stack[:-1], alt


def op_return(stack, alt):
    return False, stack, alt


# ---------------------------------------------------------------------------- stack ops
def op_toaltstack(stack, alt):
    if len(stack) < 1:
        return False, stack, alt
    return True, stack[:-1], alt + [stack[-1]]


def op_fromaltstack(stack, alt):
    if len(alt) < 1:
        return False, stack, alt
    return True, stack + [alt[-1]], alt[:-1]


def op_2drop(stack, alt):
    if len(stack) < 2:
        return False, stack, alt
    return True, stack[:-2], alt


def op_2dup(stack, alt):
    # (x1 x2 -- x1 x2 x1 x2)
    if len(stack) < 2:
        return False, stack, alt
    return True, stack + [stack[-2], stack[-1]], alt


def op_3dup(stack, alt):
    # (x1 x2 x3 -- x1 x2 x3 x1 x2 x3)
    if len(stack) < 3:
        return False, stack, alt
    return True, stack + [stack[-3], stack[-2], stack[-1]], alt


def op_2over(stack, alt):
    # (x1 x2 x3 x4 -- x1 x2 x3 x4 x1 x2)
    if len(stack) < 4:
        return False, stack, alt
    return True, stack + [stack[-4], stack[-3]], alt


def op_2rot(stack, alt):
    # (x1 x2 x3 x4 x5 x6 -- x3 x4 x5 x6 x1 x2): the third pair is MOVED to the top
    if len(stack) < 6:
        return False, stack, alt
    n = len(stack)
    return True, stack[:n - 6] + [stack[-4], stack[-3], stack[-2], stack[-1], stack[-6], stack[-5]], alt


def op_2swap(stack, alt):
    # (x1 x2 x3 x4 -- x3 x4 x1 x2)
    if len(stack) < 4:
        return False, stack, alt
    n = len(stack)
    return True, stack[:n - 4] + [stack[-2], stack[-1], stack[-4], stack[-3]], alt


def op_ifdup(stack, alt):
    if len(stack) < 1:
        return False, stack, alt
    if cast_to_bool(stack[-1]):
        return True, stack + [stack[-1]], alt
    return True, stack, alt


def op_depth(stack, alt):
    return True, stack + [scriptnum_enc(len(stack))], alt


def op_drop(stack, alt):
    if len(stack) < 1:
        return False, stack, alt
    return True, stack[:-1], alt


def op_dup(stack, alt):
    if len(stack) < 1:
        return False, stack, alt
    return True, stack + [stack[-1]], alt


def op_nip(stack, alt):
    # (x1 x2 -- x2)
    if len(stack) < 2:
        return False, stack, alt
    return True, stack[:-2] + [stack[-1]], alt


def op_over(stack, alt):
    # (x1 x2 -- x1 x2 x1)
    if len(stack) < 2:
        return False, stack, alt
    return True, stack + [stack[-2]], alt


def op_pick(stack, alt):
    # (xn ... x2 x1 x0 n -- xn ... x2 x1 x0 xn); n < 0 or n >= size (after popping n) fails
    if len(stack) < 2:
        return False, stack, alt
    if not num_ok(stack[-1]):
        return False, stack, alt
    n = scriptnum_dec(stack[-1])
    rest = stack[:-1]
    if n < 0 or n >= len(rest):
        return False, stack, alt
    return True, rest + [rest[len(rest) - 1 - n]], alt


def op_roll(stack, alt):
    # (xn ... x2 x1 x0 n -- ... x2 x1 x0 xn)
    if len(stack) < 2:
        return False, stack, alt
    if not num_ok(stack[-1]):
        return False, stack, alt
    n = scriptnum_dec(stack[-1])
    rest = stack[:-1]
    if n < 0 or n >= len(rest):
        return False, stack, alt
    i = len(rest) - 1 - n
    return True, rest[:i] + rest[i + 1:] + [rest[i]], alt


def op_rot(stack, alt):
    # (x1 x2 x3 -- x2 x3 x1)
    if len(stack) < 3:
        return False, stack, alt
    return True, stack[:-3] + [stack[-2], stack[-1], stack[-3]], alt


def op_swap(stack, alt):
    if len(stack) < 2:
        return False, stack, alt
    return True, stack[:-2] + [stack[-1], stack[-2]], alt


def op_tuck(stack, alt):
    # (x1 x2 -- x2 x1 x2)
    if len(stack) < 2:
        return False, stack, alt
    return True, stack[:-2] + [stack[-1], stack[-2], stack[-1]], alt


def op_size(stack, alt):
    if len(stack) < 1:
        return False, stack, alt
    return True, stack + [scriptnum_enc(len(stack[-1]))], alt


def op_equal(stack, alt):
    if len(stack) < 2:
        return False, stack, alt
    return True, stack[:-2] + [_bool(stack[-2] == stack[-1])], alt


def op_equalverify(stack, alt):
    if len(stack) < 2:
        return False, stack, alt
    if stack[-2] != stack[-1]:
        return False, stack, alt
    return True, stack[:-2], alt


# ---------------------------------------------------------------------------- arithmetic
def _unary(stack, alt, kind):
    if len(stack) < 1:
        return False, stack, alt
    if not num_ok(stack[-1]):
        return False, stack, alt
    a = scriptnum_dec(stack[-1])
    if kind == "1ADD":
        r = a + 1
    elif kind == "1SUB":
        r = a - 1
    elif kind == "NEGATE":
        r = -a
    elif kind == "ABS":
        r = -a if a < 0 else a
    elif kind == "NOT":
        r = 1 if a == 0 else 0
    else:                       # 0NOTEQUAL
        r = 1 if a != 0 else 0
    return True, stack[:-1] + [scriptnum_enc(r)], alt


def op_1add(stack, alt):
    return _unary(stack, alt, "1ADD")


def op_1sub(stack, alt):
    return _unary(stack, alt, "1SUB")


def op_negate(stack, alt):
    return _unary(stack, alt, "NEGATE")


def op_abs(stack, alt):
    return _unary(stack, alt, "ABS")


def op_not(stack, alt):
    return _unary(stack, alt, "NOT")


def op_0notequal(stack, alt):
    return _unary(stack, alt, "0NOTEQUAL")


def _binary(stack, alt, kind):
    """(x1 x2 -- out) with bn1 = stacktop(-2), bn2 = stacktop(-1)"""
    if len(stack) < 2:
        return False, stack, alt
    if not num_ok(stack[-2]) or not num_ok(stack[-1]):
        return False, stack, alt
    a = scriptnum_dec(stack[-2])
    b = scriptnum_dec(stack[-1])
    if kind == "ADD":
        r = a + b
    elif kind == "SUB":
        r = a - b
    elif kind == "BOOLAND":
        r = 1 if (a != 0 and b != 0) else 0
    elif kind == "BOOLOR":
        r = 1 if (a != 0 or b != 0) else 0
    elif kind == "NUMEQUAL" or kind == "NUMEQUALVERIFY":
        r = 1 if a == b else 0
    elif kind == "NUMNOTEQUAL":
        r = 1 if a != b else 0
    elif kind == "LESSTHAN":
        r = 1 if a < b else 0
    elif kind == "GREATERTHAN":
        r = 1 if a > b else 0
    elif kind == "LESSTHANOREQUAL":
        r = 1 if a <= b else 0
    elif kind == "GREATERTHANOREQUAL":
        r = 1 if a >= b else 0
    elif kind == "MIN":
        r = a if a < b else b
    else:                       # MAX
        r = a if a > b else b
    if kind == "NUMEQUALVERIFY":
        if r == 0:
            return False, stack, alt
        return True, stack[:-2], alt
    return True, stack[:-2] + [scriptnum_enc(r)], alt


def op_add(stack, alt):
    return _binary(stack, alt, "ADD")


def op_sub(stack, alt):
    return _binary(stack, alt, "SUB")


def op_booland(stack, alt):
    return _binary(stack, alt, "BOOLAND")


def op_boolor(stack, alt):
    return _binary(stack, alt, "BOOLOR")


def op_numequal(stack, alt):
    return _binary(stack, alt, "NUMEQUAL")


def op_numequalverify(stack, alt):
    return _binary(stack, alt, "NUMEQUALVERIFY")


def op_numnotequal(stack, alt):
    return _binary(stack, alt, "NUMNOTEQUAL")


def op_lessthan(stack, alt):
    return _binary(stack, alt, "LESSTHAN")


def op_greaterthan(stack, alt):
    return _binary(stack, alt, "GREATERTHAN")


def op_lessthanorequal(stack, alt):
    return _binary(stack, alt, "LESSTHANOREQUAL")


def op_greaterthanorequal(stack, alt):
    return _binary(stack, alt, "GREATERTHANOREQUAL")


def op_min(stack, alt):
    return _binary(stack, alt, "MIN")


def op_max(stack, alt):
    return _binary(stack, alt, "MAX")


def op_within(stack, alt):
    # (x min max -- out): min <= x < max
    if len(stack) < 3:
        return False, stack, alt
    if not num_ok(stack[-3]) or not num_ok(stack[-2]) or not num_ok(stack[-1]):
        return False, stack, alt
    x = scriptnum_dec(stack[-3])
    lo = scriptnum_dec(stack[-2])
    hi = scriptnum_dec(stack[-1])
    return True, stack[:-3] + [_bool(lo <= x and x < hi)], alt


# ---------------------------------------------------------------------------- hashes
def _hash(stack, alt, kind):
    if len(stack) < 1:
        return False, stack, alt
    x = stack[-1]
    if kind == "RIPEMD160":
        h = hashlib.new("ripemd160", x).digest()
    elif kind == "SHA1":
        h = hashlib.sha1(x).digest()
    elif kind == "SHA256":
        h = hashlib.sha256(x).digest()
    elif kind == "HASH160":
        h = hashlib.new("ripemd160", hashlib.sha256(x).digest()).digest()
    else:                       # HASH256
        h = hashlib.sha256(hashlib.sha256(x).digest()).digest()
    return True, stack[:-1] + [h], alt


def op_ripemd160(stack, alt):
    return _hash(stack, alt, "RIPEMD160")


def op_sha1(stack, alt):
    return _hash(stack, alt, "SHA1")


def op_sha256(stack, alt):
    return _hash(stack, alt, "SHA256")


def op_hash160(stack, alt):
    return _hash(stack, alt, "HASH160")


def op_hash256(stack, alt):
    return _hash(stack, alt, "HASH256")


# ---------------------------------------------------------------------------- timelocks
def check_locktime(tx_locktime, tx_input_sequence, operand):
    """OP_CHECKLOCKTIMEVERIFY on a stack whose top is `operand` (bytes), or None for an empty stack.
    interpreter.cpp case OP_CHECKLOCKTIMEVERIFY + GenericTransactionSignatureChecker::CheckLockTime
    (BIP65).  The stack is left unchanged; the result is success / failure."""
    if operand is None:
        return False                                   # SCRIPT_ERR_INVALID_STACK_OPERATION
    if len(operand) > 5:
        return False                                   # CScriptNum(stacktop(-1), fRequireMinimal, 5) overflows
    n = scriptnum_dec(operand)
    if n < 0:
        return False                                   # SCRIPT_ERR_NEGATIVE_LOCKTIME
    # CheckLockTime: both must be of the same kind (height < 500000000 <= time)
    if not ((tx_locktime < LOCKTIME_THRESHOLD and n < LOCKTIME_THRESHOLD)
            or (tx_locktime >= LOCKTIME_THRESHOLD and n >= LOCKTIME_THRESHOLD)):
        return False
    if n > tx_locktime:
        return False
    if tx_input_sequence == SEQUENCE_FINAL:
        return False
    return True


def check_sequence(tx_version, tx_input_sequence, operand):
    """OP_CHECKSEQUENCEVERIFY (BIP112): interpreter.cpp case OP_CHECKSEQUENCEVERIFY +
    CheckSequence.  Order matters: an operand with the disable flag (bit 31) set makes the opcode
    a NOP *before* the transaction version and the input's own sequence are looked at."""
    if operand is None:
        return False
    if len(operand) > 5:
        return False
    n = scriptnum_dec(operand)
    if n < 0:
        return False                                   # SCRIPT_ERR_NEGATIVE_LOCKTIME
    if n & SEQUENCE_LOCKTIME_DISABLE_FLAG != 0:
        return True                                    # behaves as a NOP
    # CheckSequence
    if tx_version < 2:
        return False
    if tx_input_sequence & SEQUENCE_LOCKTIME_DISABLE_FLAG != 0:
        return False
    # nLockTimeMask = TYPE_FLAG | MASK; x & nLockTimeMask is written as the sum over the two disjoint parts of the mask
    # (x & (A | B) == (x & A) + (x & B) when A & B == 0), which the SMT encoding handles much faster
    tx_masked = (tx_input_sequence & SEQUENCE_LOCKTIME_TYPE_FLAG) + (tx_input_sequence & SEQUENCE_LOCKTIME_MASK)
    n_masked = (n & SEQUENCE_LOCKTIME_TYPE_FLAG) + (n & SEQUENCE_LOCKTIME_MASK)
    if not ((tx_masked < SEQUENCE_LOCKTIME_TYPE_FLAG and n_masked < SEQUENCE_LOCKTIME_TYPE_FLAG)
            or (tx_masked >= SEQUENCE_LOCKTIME_TYPE_FLAG and n_masked >= SEQUENCE_LOCKTIME_TYPE_FLAG)):
        return False
    if n_masked > tx_masked:
        return False
    return True


# BIP65 / BIP68 helper predicates used by the contracts on buidl.timelock
def locktime_same_kind(a, b):
    return (a < LOCKTIME_THRESHOLD) == (b < LOCKTIME_THRESHOLD)


def seq_is_relative(s):
    """BIP68: bit 31 clear -> the sequence number encodes a relative lock-time"""
    return s & SEQUENCE_LOCKTIME_DISABLE_FLAG == 0


def seq_is_time(s):
    return seq_is_relative(s) and s & SEQUENCE_LOCKTIME_TYPE_FLAG != 0


def seq_is_blocks(s):
    return seq_is_relative(s) and s & SEQUENCE_LOCKTIME_TYPE_FLAG == 0


def seq_value(s):
    return s & SEQUENCE_LOCKTIME_MASK


def seq_seconds(s):
    """BIP68: time-based relative lock-time has a granularity of 512 seconds"""
    return (s & SEQUENCE_LOCKTIME_MASK) * 512


def seq_same_kind(a, b):
    return (seq_is_blocks(a) and seq_is_blocks(b)) or (seq_is_time(a) and seq_is_time(b))


# ---------------------------------------------------------------------------- opcode table
# script.h opcodetype (number -> name)
OPCODE_NAMES = {
    0x00: "OP_0", 0x4c: "OP_PUSHDATA1", 0x4d: "OP_PUSHDATA2", 0x4e: "OP_PUSHDATA4", 0x4f: "OP_1NEGATE",
    0x50: "OP_RESERVED",
    0x51: "OP_1", 0x52: "OP_2", 0x53: "OP_3", 0x54: "OP_4", 0x55: "OP_5", 0x56: "OP_6", 0x57: "OP_7", 0x58: "OP_8",
    0x59: "OP_9", 0x5a: "OP_10", 0x5b: "OP_11", 0x5c: "OP_12", 0x5d: "OP_13", 0x5e: "OP_14", 0x5f: "OP_15", 0x60: "OP_16",
    0x61: "OP_NOP", 0x62: "OP_VER", 0x63: "OP_IF", 0x64: "OP_NOTIF", 0x65: "OP_VERIF", 0x66: "OP_VERNOTIF",
    0x67: "OP_ELSE", 0x68: "OP_ENDIF", 0x69: "OP_VERIFY", 0x6a: "OP_RETURN",
    0x6b: "OP_TOALTSTACK", 0x6c: "OP_FROMALTSTACK", 0x6d: "OP_2DROP", 0x6e: "OP_2DUP", 0x6f: "OP_3DUP", 0x70: "OP_2OVER",
    0x71: "OP_2ROT", 0x72: "OP_2SWAP", 0x73: "OP_IFDUP", 0x74: "OP_DEPTH", 0x75: "OP_DROP", 0x76: "OP_DUP", 0x77: "OP_NIP",
    0x78: "OP_OVER", 0x79: "OP_PICK", 0x7a: "OP_ROLL", 0x7b: "OP_ROT", 0x7c: "OP_SWAP", 0x7d: "OP_TUCK",
    0x7e: "OP_CAT", 0x7f: "OP_SUBSTR", 0x80: "OP_LEFT", 0x81: "OP_RIGHT", 0x82: "OP_SIZE",
    0x83: "OP_INVERT", 0x84: "OP_AND", 0x85: "OP_OR", 0x86: "OP_XOR", 0x87: "OP_EQUAL", 0x88: "OP_EQUALVERIFY",
    0x89: "OP_RESERVED1", 0x8a: "OP_RESERVED2",
    0x8b: "OP_1ADD", 0x8c: "OP_1SUB", 0x8d: "OP_2MUL", 0x8e: "OP_2DIV", 0x8f: "OP_NEGATE", 0x90: "OP_ABS", 0x91: "OP_NOT",
    0x92: "OP_0NOTEQUAL", 0x93: "OP_ADD", 0x94: "OP_SUB", 0x95: "OP_MUL", 0x96: "OP_DIV", 0x97: "OP_MOD",
    0x98: "OP_LSHIFT", 0x99: "OP_RSHIFT", 0x9a: "OP_BOOLAND", 0x9b: "OP_BOOLOR", 0x9c: "OP_NUMEQUAL",
    0x9d: "OP_NUMEQUALVERIFY", 0x9e: "OP_NUMNOTEQUAL", 0x9f: "OP_LESSTHAN", 0xa0: "OP_GREATERTHAN",
    0xa1: "OP_LESSTHANOREQUAL", 0xa2: "OP_GREATERTHANOREQUAL", 0xa3: "OP_MIN", 0xa4: "OP_MAX", 0xa5: "OP_WITHIN",
    0xa6: "OP_RIPEMD160", 0xa7: "OP_SHA1", 0xa8: "OP_SHA256", 0xa9: "OP_HASH160", 0xaa: "OP_HASH256",
    0xab: "OP_CODESEPARATOR", 0xac: "OP_CHECKSIG", 0xad: "OP_CHECKSIGVERIFY", 0xae: "OP_CHECKMULTISIG",
    0xaf: "OP_CHECKMULTISIGVERIFY",
    0xb0: "OP_NOP1", 0xb1: "OP_CHECKLOCKTIMEVERIFY", 0xb2: "OP_CHECKSEQUENCEVERIFY", 0xb3: "OP_NOP4", 0xb4: "OP_NOP5",
    0xb5: "OP_NOP6", 0xb6: "OP_NOP7", 0xb7: "OP_NOP8", 0xb8: "OP_NOP9", 0xb9: "OP_NOP10",
    0xba: "OP_CHECKSIGADD",
}

# opcode number -> name of the function in buidl.op that has to implement it in a legacy / segwit v0
# script.  Derived from the opcode names: OP_<X> -> op_<x>; the upgradable NOPs (NOP1, NOP4..NOP10)
# behave as OP_NOP.  Control-flow markers ELSE/ENDIF are consumed by IF/NOTIF and have no function.
_LEGACY_EXECUTABLE = (
    [0x00, 0x4f] + list(range(0x51, 0x62)) + [0x63, 0x64] + list(range(0x69, 0x7e)) + [0x82, 0x87, 0x88, 0x8b, 0x8c]
    + [0x8f, 0x90, 0x91, 0x92, 0x93, 0x94] + list(range(0x9a, 0xab)) + list(range(0xac, 0xba)))


def expected_function_name(opcode, taproot=False):
    """name of the buidl.op function a dispatch table has to hold for `opcode`, or None when the
    opcode has no per-opcode function (pushes, ELSE/ENDIF, disabled / reserved opcodes in legacy
    scripts, CODESEPARATOR)."""
    if taproot:
        if is_op_success(opcode):
            return "op_success"
        if opcode in (0xae, 0xaf):
            return "op_return"              # BIP342: CHECKMULTISIG(VERIFY) are disabled -> script fails
        if opcode == 0xac:
            return "op_checksig_schnorr"
        if opcode == 0xad:
            return "op_checksigverify_schnorr"
        if opcode == 0xba:
            return "op_checksigadd_schnorr"
    if opcode not in _LEGACY_EXECUTABLE:
        return None
    name = OPCODE_NAMES[opcode]
    if name in ("OP_NOP1", "OP_NOP4", "OP_NOP5", "OP_NOP6", "OP_NOP7", "OP_NOP8", "OP_NOP9", "OP_NOP10"):
        return "op_nop"
    return "op_" + name[3:].lower()


def is_op_success(opcode):
    """BIP342: 80, 98, 126-129, 131-134, 137-138, 141-142, 149-153, 187-254"""
    return (opcode in (80, 98) or 126 <= opcode <= 129 or 131 <= opcode <= 134 or 137 <= opcode <= 138
            or 141 <= opcode <= 142 or 149 <= opcode <= 153 or 187 <= opcode <= 254)


# opcode number -> (spec function, needs-number) for the context-free opcodes
def _const_fn(n):
    def f(stack, alt):
        return op_const(n, stack, alt)
    return f


SIMPLE_OPS = {
    0x00: _const_fn(0), 0x4f: _const_fn(-1),
    0x61: op_nop, 0x69: op_verify, 0x6a: op_return, 0x6b: op_toaltstack, 0x6c: op_fromaltstack,
    0x6d: op_2drop, 0x6e: op_2dup, 0x6f: op_3dup, 0x70: op_2over, 0x71: op_2rot, 0x72: op_2swap, 0x73: op_ifdup,
    0x74: op_depth, 0x75: op_drop, 0x76: op_dup, 0x77: op_nip, 0x78: op_over, 0x79: op_pick, 0x7a: op_roll,
    0x7b: op_rot, 0x7c: op_swap, 0x7d: op_tuck, 0x82: op_size, 0x87: op_equal, 0x88: op_equalverify,
    0x8b: op_1add, 0x8c: op_1sub, 0x8f: op_negate, 0x90: op_abs, 0x91: op_not, 0x92: op_0notequal,
    0x93: op_add, 0x94: op_sub, 0x9a: op_booland, 0x9b: op_boolor, 0x9c: op_numequal, 0x9d: op_numequalverify,
    0x9e: op_numnotequal, 0x9f: op_lessthan, 0xa0: op_greaterthan, 0xa1: op_lessthanorequal,
    0xa2: op_greaterthanorequal, 0xa3: op_min, 0xa4: op_max, 0xa5: op_within,
    0xa6: op_ripemd160, 0xa7: op_sha1, 0xa8: op_sha256, 0xa9: op_hash160, 0xaa: op_hash256,
    0xb0: op_nop, 0xb3: op_nop, 0xb4: op_nop, 0xb5: op_nop, 0xb6: op_nop, 0xb7: op_nop, 0xb8: op_nop, 0xb9: op_nop,
}
for _n in range(1, 17):
    SIMPLE_OPS[0x50 + _n] = _const_fn(_n)

OP_IF, OP_NOTIF, OP_ELSE, OP_ENDIF = 0x63, 0x64, 0x67, 0x68
OP_CLTV, OP_CSV = 0xb1, 0xb2


# ---------------------------------------------------------------------------- small-integer opcodes
def small_int_opcode(n):
    """script.h CScript::EncodeOP_N / OP_1NEGATE: opcode number that pushes the integer n, -1 <= n <= 16"""
    if n == 0:
        return 0x00
    if n == -1:
        return 0x4f
    return 0x50 + n


def small_int_of_opcode(opcode):
    """CScript::DecodeOP_N extended with OP_1NEGATE; None for any other opcode"""
    if opcode == 0x00:
        return 0
    if opcode == 0x4f:
        return -1
    if 0x51 <= opcode <= 0x60:
        return opcode - 0x50
    return None


# ---------------------------------------------------------------------------- conditionals
def if_splice(items, value):
    """What has to remain of the command list `items` (the commands that FOLLOW an executed OP_IF whose
    condition evaluated to `value`) once the conditional is resolved: the commands of the branches that
    vfExec would execute, with nested conditionals kept intact, followed by everything after the matching
    OP_ENDIF.  Every OP_ELSE at nesting depth 0 toggles the branch (interpreter.cpp: vfExec.back() =
    !vfExec.back(), so a second ELSE switches back).  -> (found_endif, remaining_items)"""
    taken = []
    depth = 0
    execing = value
    n = len(items)
    for i in range(n):
        c = items[i]
        is_op = isinstance(c, int)
        if is_op and (c == 0x63 or c == 0x64):
            depth += 1
        elif is_op and c == 0x68:
            if depth == 0:
                return True, taken + items[i + 1:]
            depth -= 1
        elif is_op and c == 0x67 and depth == 0:
            execing = not execing
            continue
        if execing:
            taken = taken + [c]
    return False, items


def final_accept(stack):
    """VerifyScript after the last EvalScript: SCRIPT_ERR_EVAL_FALSE when the stack is empty or its top is
    not true"""
    if len(stack) == 0:
        return False
    return cast_to_bool(stack[-1])


def accepts_push_op(x, opcode):
    """accept / reject of the two-command script `<x> OPCODE` for a context-free opcode"""
    ok, stack, alt = SIMPLE_OPS[opcode]([x], [])
    if not ok:
        return False
    return final_accept(stack)


# ---------------------------------------------------------------------------- reference evaluator
def run_script(cmds, ctx):
    """EvalScript of one script `cmds` (ints = opcodes, bytes = data pushes) started on an empty stack
    -> (ok, final_stack).  The condition stack vfExec decides whether an opcode executes; IF / NOTIF / ELSE /
    ENDIF are processed even when not executing; every ELSE toggles.  ctx = {"version", "locktime",
    "sequence"} of the spending transaction / input.  Opcodes outside SIMPLE_OPS + conditionals + CLTV / CSV
    make the script fail (they are not part of the modelled set).  Concrete use only (bounded companion)."""
    stack = []
    alt = []
    vf_exec = []
    n_ops = 0
    for c in cmds:
        f_exec = all(vf_exec)
        if isinstance(c, (bytes, bytearray)):
            if len(c) > MAX_ELEMENT_SIZE:
                return False, stack
            if f_exec:
                stack = stack + [bytes(c)]
        else:
            if c > 0x60:
                n_ops += 1
                if n_ops > MAX_OPS_PER_SCRIPT:
                    return False, stack
            if c in (OP_IF, OP_NOTIF):
                value = False
                if f_exec:
                    if len(stack) < 1:
                        return False, stack              # SCRIPT_ERR_UNBALANCED_CONDITIONAL
                    value = cast_to_bool(stack[-1])
                    if c == OP_NOTIF:
                        value = not value
                    stack = stack[:-1]
                vf_exec.append(value)
            elif c == OP_ELSE:
                if not vf_exec:
                    return False, stack
                vf_exec[-1] = not vf_exec[-1]
            elif c == OP_ENDIF:
                if not vf_exec:
                    return False, stack
                vf_exec.pop()
            elif not f_exec:
                pass
            elif c == OP_CLTV:
                if not check_locktime(ctx["locktime"], ctx["sequence"], stack[-1] if stack else None):
                    return False, stack
            elif c == OP_CSV:
                if not check_sequence(ctx["version"], ctx["sequence"], stack[-1] if stack else None):
                    return False, stack
            elif c in SIMPLE_OPS:
                ok, stack, alt = SIMPLE_OPS[c](stack, alt)
                if not ok:
                    return False, stack
            else:
                return False, stack
        if len(stack) + len(alt) > MAX_STACK_SIZE:
            return False, stack
    if vf_exec:
        return False, stack                              # SCRIPT_ERR_UNBALANCED_CONDITIONAL
    return True, stack


def eval_script(cmds, ctx):
    """accept / reject: run_script followed by VerifyScript's final test (non-empty stack whose top is true)"""
    ok, stack = run_script(cmds, ctx)
    if not ok:
        return False
    return final_accept(stack)
