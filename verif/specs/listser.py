"""Concatenation of element serialisations, defined by recursion on the prefix length so that loop
invariants can speak about 'the first k elements' (verif/pyvc/symlist.py)."""
from ._rec import recursive
from .wire import le, compact_size, hash256, sha256


@recursive(returns="bytes")
def concat_ser(xs, k):
    """ser(xs[0]) + ... + ser(xs[k-1])"""
    if k == 0:
        return b""
    return concat_ser(xs, k - 1) + xs[k - 1].serialize()


@recursive(returns="bytes")
def concat_wit(xs, k):
    """witness(xs[0]) + ... + witness(xs[k-1])  (BIP144 witness section)"""
    if k == 0:
        return b""
    return concat_wit(xs, k - 1) + xs[k - 1].witness.serialize()


def tx_legacy(version, ins, outs, locktime4):
    """Bitcoin transaction, pre-BIP144 layout: version | count ins | ins | count outs | outs | locktime"""
    return (le(version, 4) + compact_size(len(ins)) + concat_ser(ins, len(ins))
            + compact_size(len(outs)) + concat_ser(outs, len(outs)) + locktime4)


def tx_segwit(version, ins, outs, locktime4):
    """BIP144: version | 00 01 | ins | outs | witnesses of the inputs in order | locktime"""
    return (le(version, 4) + b"\x00\x01" + compact_size(len(ins)) + concat_ser(ins, len(ins))
            + compact_size(len(outs)) + concat_ser(outs, len(outs)) + concat_wit(ins, len(ins)) + locktime4)


# ------------------------------------------------------------------ P2P messages carrying lists (C19)
@recursive(returns="bytes")
def concat_inv(xs, k):
    """inventory vectors of a getdata message: (type: uint32 LE, hash: 32 bytes in wire order) for xs[0..k-1]"""
    if k == 0:
        return b""
    return concat_inv(xs, k - 1) + le(xs[k - 1][0], 4) + xs[k - 1][1][::-1]


def getdata_msg(items):
    """getdata: count (compact size) | inventory vectors"""
    return compact_size(len(items)) + concat_inv(items, len(items))


def headers_msg(headers80):
    """headers: count | (80-byte header | transaction count 0)*"""
    out = compact_size(len(headers80))
    for h in headers80:
        out += h + b"\x00"
    return out


def cfheaders_msg(filter_type, stop_hash, previous_filter_header, filter_hashes):
    """BIP157 cfheaders: type (1) | stop hash (wire order) | previous filter header | count | filter hashes"""
    out = le(filter_type, 1) + stop_hash[::-1] + previous_filter_header + compact_size(len(filter_hashes))
    for h in filter_hashes:
        out += h
    return out


def cfcheckpt_msg(filter_type, stop_hash, filter_headers):
    """BIP157 cfcheckpt: type (1) | stop hash (wire order) | count | filter headers"""
    out = le(filter_type, 1) + stop_hash[::-1] + compact_size(len(filter_headers))
    for h in filter_headers:
        out += h
    return out


# ------------------------------------------------------------------ BIP143 for every transaction shape (C05)
@recursive(returns="bytes")
def concat_outpoints(xs, k):
    """outpoints (txid in wire order | uint32 LE index) of inputs 0..k-1"""
    if k == 0:
        return b""
    return concat_outpoints(xs, k - 1) + xs[k - 1].prev_tx[::-1] + le(xs[k - 1].prev_index, 4)


@recursive(returns="bytes")
def concat_sequences(xs, k):
    """nSequence (uint32 LE) of inputs 0..k-1"""
    if k == 0:
        return b""
    return concat_sequences(xs, k - 1) + le(xs[k - 1].sequence, 4)


def bip143_preimage(version, ins, outs, i, script_code, amount, locktime4, hash_type):
    """BIP143 'Specification', items 1-10, for input i; script_code is the serialised scriptCode (with length)"""
    acp = (hash_type & 0x80) == 0x80
    base = hash_type & 0x1f
    zero = b"\x00" * 32
    hash_prevouts = zero if acp else hash256(concat_outpoints(ins, len(ins)))
    hash_sequence = zero if (acp or base == 2 or base == 3) else hash256(concat_sequences(ins, len(ins)))
    if base != 2 and base != 3:
        hash_outputs = hash256(concat_ser(outs, len(outs)))
    elif base == 3 and i < len(outs):
        hash_outputs = hash256(outs[i].serialize())
    else:
        hash_outputs = zero
    return (le(version, 4) + hash_prevouts + hash_sequence + ins[i].prev_tx[::-1] + le(ins[i].prev_index, 4) + script_code
            + le(amount, 8) + le(ins[i].sequence, 4) + hash_outputs + locktime4 + le(hash_type, 4))


# ------------------------------------------------------------------ BIP341 key path, no annex, for every shape (C05)
@recursive(returns="bytes")
def concat_amounts(xs, k):
    """amounts (int64 LE) of the outputs spent by inputs 0..k-1"""
    if k == 0:
        return b""
    return concat_amounts(xs, k - 1) + le(xs[k - 1]._value, 8)


@recursive(returns="bytes")
def concat_spent_spks(xs, k):
    """scriptPubKeys (serialised as in CTxOut) of the outputs spent by inputs 0..k-1"""
    if k == 0:
        return b""
    return concat_spent_spks(xs, k - 1) + xs[k - 1]._script_pubkey.serialize()


def bip341_keypath_message(version, ins, outs, i, locktime4, hash_type):
    """BIP341 'Common signature message' SigMsg(hash_type, ext_flag = 0) preceded by the epoch byte, no annex.
    Only defined when hash_type is not SINGLE without a corresponding output."""
    acp = (hash_type & 0x80) == 0x80
    base = hash_type & 3
    m = b"\x00" + le(hash_type, 1) + le(version, 4) + locktime4
    if not acp:
        m += sha256(concat_outpoints(ins, len(ins))) + sha256(concat_amounts(ins, len(ins)))
        m += sha256(concat_spent_spks(ins, len(ins))) + sha256(concat_sequences(ins, len(ins)))
    if base != 2 and base != 3:
        m += sha256(concat_ser(outs, len(outs)))
    m += b"\x00"                                           # spend_type = ext_flag * 2 + annex_present
    if acp:
        m += ins[i].prev_tx[::-1] + le(ins[i].prev_index, 4) + le(ins[i]._value, 8) + ins[i]._script_pubkey.serialize() + le(ins[i].sequence, 4)
    else:
        m += le(i, 4)
    if base == 3:
        m += sha256(outs[i].serialize())
    return m


# ------------------------------------------------------------------ original (pre-segwit) signature hash for every shape (C05)
@recursive(returns="bytes")
def legacy_ins(xs, k, i, blank_seq, script_code):
    """inputs 0..k-1 as SignatureHash serialises them when ANYONECANPAY is not set: the script of input i is the
    script code, every other script is empty; with NONE/SINGLE the other inputs' sequence numbers are zero"""
    if k == 0:
        return b""
    j = k - 1
    return (legacy_ins(xs, k - 1, i, blank_seq, script_code) + xs[j].prev_tx[::-1] + le(xs[j].prev_index, 4)
            + (script_code if j == i else b"\x00")
            + (le(0, 4) if (j != i and blank_seq) else le(xs[j].sequence, 4)))


@recursive(returns="bytes")
def null_outs(k):
    """k default-constructed CTxOut (value -1, empty script)"""
    if k == 0:
        return b""
    return null_outs(k - 1) + b"\xff\xff\xff\xff\xff\xff\xff\xff\x00"


def legacy_through_inputs(version, ins, k, i, script_code, hash_type):
    """version | input count | the first k inputs as seen by the signature of input i"""
    if hash_type & 0x80:
        own = ins[i].prev_tx[::-1] + le(ins[i].prev_index, 4) + script_code + le(ins[i].sequence, 4)
        return le(version, 4) + compact_size(1) + (own if k > i else b"")
    blank = (hash_type & 0x1f) == 2 or (hash_type & 0x1f) == 3
    return le(version, 4) + compact_size(len(ins)) + legacy_ins(ins, k, i, blank, script_code)


def legacy_out_count(outs, i, hash_type):
    base = hash_type & 0x1f
    return compact_size(0) if base == 2 else (compact_size(i + 1) if base == 3 else compact_size(len(outs)))


def legacy_outs_upto(outs, k, hash_type):
    """what the output loop has written after k iterations without leaving the loop"""
    base = hash_type & 0x1f
    return b"" if base == 2 else (null_outs(k) if base == 3 else concat_ser(outs, k))


def legacy_preimage(version, ins, outs, i, script_code, locktime4, hash_type):
    """SignatureHash (Bitcoin Core interpreter.cpp, pre-segwit) for i < len(ins) and, for SINGLE, i < len(outs)"""
    base = hash_type & 0x1f
    m = legacy_through_inputs(version, ins, len(ins), i, script_code, hash_type) + legacy_out_count(outs, i, hash_type)
    if base == 3:
        m += null_outs(i) + outs[i].serialize()
    elif base != 2:
        m += concat_ser(outs, len(outs))
    return m + locktime4 + le(hash_type, 4)


# ------------------------------------------------------------------ fee of a transaction of any shape (C11)
@recursive(returns="int")
def sum_values(xs, k):
    if k == 0:
        return 0
    return sum_values(xs, k - 1) + xs[k - 1]._value


@recursive(returns="int")
def sum_amounts(xs, k):
    if k == 0:
        return 0
    return sum_amounts(xs, k - 1) + xs[k - 1].amount


# ------------------------------------------------------------------ parsing direction: what is LEFT of a list in a stream
@recursive(returns="bytes")
def concat_from(xs, k):
    """xs[k] + xs[k+1] + ... (the elements are byte strings): recursion on the suffix, for invariants of parsing loops"""
    if k == len(xs):
        return b""
    return xs[k] + concat_from(xs, k + 1)


def cfcheckpt_msg_any(filter_type, stop_hash, filter_headers):
    """BIP157 cfcheckpt for a list of any length"""
    return le(filter_type, 1) + stop_hash[::-1] + compact_size(len(filter_headers)) + concat_from(filter_headers, 0)


@recursive(returns="bytes:32")
def hash_chain(prev, xs, k):
    """BIP157 filter-header chain: header_i = hash256(filter_hash_i || header_{i-1}), header_0 = prev; value after k hashes"""
    if k == 0:
        return prev
    return hash256(xs[k - 1] + hash_chain(prev, xs, k - 1))


def cfheaders_msg_any(filter_type, stop_hash, previous_filter_header, filter_hashes):
    """BIP157 cfheaders for a list of any length"""
    return (le(filter_type, 1) + stop_hash[::-1] + previous_filter_header + compact_size(len(filter_hashes))
            + concat_from(filter_hashes, 0))


# ------------------------------------------------------------------ transaction parsing for every shape (C04)
@recursive(returns="bytes")
def concat_ser_from(xs, k):
    """ser(xs[k]) + ser(xs[k+1]) + ... : what is left of the element list in the stream"""
    if k == len(xs):
        return b""
    return xs[k].serialize() + concat_ser_from(xs, k + 1)


@recursive(returns="bytes")
def concat_wit_from(xs, k):
    """witness(xs[k]) + witness(xs[k+1]) + ..."""
    if k == len(xs):
        return b""
    return xs[k].witness.serialize() + concat_wit_from(xs, k + 1)


def tx_legacy_from_outs(outs, locktime4):
    return compact_size(len(outs)) + concat_ser_from(outs, 0) + locktime4


def tx_legacy_any(version, ins, outs, locktime4):
    return le(version, 4) + compact_size(len(ins)) + concat_ser_from(ins, 0) + tx_legacy_from_outs(outs, locktime4)


def tx_segwit_any(version, ins, outs, locktime4):
    return (le(version, 4) + b"\x00\x01" + compact_size(len(ins)) + concat_ser_from(ins, 0)
            + compact_size(len(outs)) + concat_ser_from(outs, 0) + concat_wit_from(ins, 0) + locktime4)
