"""Concatenation of element serialisations, defined by recursion on the prefix length so that loop
invariants can speak about 'the first k elements' (verif/pyvc/symlist.py)."""
from ._rec import recursive
from .wire import le, compact_size


@recursive(returns="bytes")
def concat_ser(xs, k):
    """ser(xs[0]) + ... + ser(xs[k-1])"""
    if k == 0:
        return b""
    return concat_ser(xs, k - 1) + xs[k - 1].serialize()


@recursive(returns="bytes")
def concat_wit(xs, k):
    """witness(xs[0]) + ... + witness(xs[k-1])  (BIP144 witness section)"""
    if k == 0:
        return b""
    return concat_wit(xs, k - 1) + xs[k - 1].witness.serialize()


def tx_legacy(version, ins, outs, locktime4):
    """Bitcoin transaction, pre-BIP144 layout: version | count ins | ins | count outs | outs | locktime"""
    return (le(version, 4) + compact_size(len(ins)) + concat_ser(ins, len(ins))
            + compact_size(len(outs)) + concat_ser(outs, len(outs)) + locktime4)


def tx_segwit(version, ins, outs, locktime4):
    """BIP144: version | 00 01 | ins | outs | witnesses of the inputs in order | locktime"""
    return (le(version, 4) + b"\x00\x01" + compact_size(len(ins)) + concat_ser(ins, len(ins))
            + compact_size(len(outs)) + concat_ser(outs, len(outs)) + concat_wit(ins, len(ins)) + locktime4)
