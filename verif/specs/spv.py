"""Merkle / SPV / proof-of-work spec functions, written from Bitcoin Core's consensus sources
(consensus/merkle.cpp ComputeMerkleRoot, merkleblock.cpp CPartialMerkleTree, arith_uint256.cpp
SetCompact/GetCompact, pow.cpp CheckProofOfWork / CalculateNextWorkRequired) and BIP37 --
independent of the repository.  Hashes are the 32 "internal order" bytes that SHA256 outputs
(what Core keeps in a uint256); display order is the reverse.

Used three ways (README_CONTRACTS): symbolically by pyvc (the small, loop-free or concretely
bounded functions), concretely as the replay oracle, concretely by the bounded jobs (the
recursive partial-merkle-tree functions are only used concretely)."""
import hashlib

U256 = 2 ** 256


def dsha256(b):
    return hashlib.sha256(hashlib.sha256(b).digest()).digest()


def merkle_pair(left, right):
    """inner node of the transaction tree: SHA256d(left || right)"""
    return dsha256(left + right)


# ---------------------------------------------------------------------------- consensus root
def merkle_level(hashes):
    """one reduction step of ComputeMerkleRoot: an odd level repeats its last element, then
    adjacent pairs are hashed.  Pure: the argument is not modified.  Defined for len >= 2."""
    level = list(hashes)
    if len(level) % 2 == 1:
        level = level + [level[len(level) - 1]]
    out = []
    for i in range(0, len(level), 2):
        out = out + [merkle_pair(level[i], level[i + 1])]
    return out


def merkle_root(hashes):
    """ComputeMerkleRoot for a non-empty list of 32-byte hashes (internal order)"""
    level = list(hashes)
    while len(level) > 1:
        level = merkle_level(level)
    return level[0]


def merkle_root1(a):
    return a


def merkle_root2(a, b):
    return merkle_pair(a, b)


def merkle_root3(a, b, c):
    return merkle_pair(merkle_pair(a, b), merkle_pair(c, c))


def merkle_root4(a, b, c, d):
    return merkle_pair(merkle_pair(a, b), merkle_pair(c, d))


def merkle_root5(a, b, c, d, e):
    ee = merkle_pair(e, e)
    return merkle_pair(merkle_pair(merkle_pair(a, b), merkle_pair(c, d)), merkle_pair(ee, ee))


# ---------------------------------------------------------------------------- BIP37 partial merkle tree
def ceil_log2(n):
    """smallest h >= 0 with 2**h >= n   (n >= 1), exact integer arithmetic"""
    h = 0
    while (1 << h) < n:
        h += 1
    return h


def tree_width(total, height):
    """CalcTreeWidth: number of nodes at `height` (0 = leaves) of a tree over `total` leaves"""
    return (total + (1 << height) - 1) >> height


def tree_height(total):
    """height of the root: smallest h with tree_width(total, h) == 1"""
    h = 0
    while tree_width(total, h) > 1:
        h += 1
    return h


def calc_hash(height, pos, txids):
    """CalcHash: hash of node (height, pos) of the full tree"""
    if height == 0:
        return txids[pos]
    left = calc_hash(height - 1, pos * 2, txids)
    if pos * 2 + 1 < tree_width(len(txids), height - 1):
        right = calc_hash(height - 1, pos * 2 + 1, txids)
    else:
        right = left
    return merkle_pair(left, right)


def _build(height, pos, txids, match, bits, hashes):
    """TraverseAndBuild (depth first)"""
    lo = pos << height
    hi = min((pos + 1) << height, len(txids))
    parent_of_match = False
    for p in range(lo, hi):
        if match[p]:
            parent_of_match = True
    bits.append(1 if parent_of_match else 0)
    if height == 0 or not parent_of_match:
        hashes.append(calc_hash(height, pos, txids))
    else:
        _build(height - 1, pos * 2, txids, match, bits, hashes)
        if pos * 2 + 1 < tree_width(len(txids), height - 1):
            _build(height - 1, pos * 2 + 1, txids, match, bits, hashes)


def pmt_build(txids, match):
    """CPartialMerkleTree(vTxid, vMatch) -> (total, bits, hashes); txids non-empty, internal order;
    match[i] truthy iff transaction i is to be proved"""
    bits, hashes = [], []
    _build(tree_height(len(txids)), 0, txids, match, bits, hashes)
    return len(txids), bits, hashes


def flag_bytes(bits):
    """BIP37: flag bits packed 8 per byte, least significant bit first, zero padded"""
    out = bytearray((len(bits) + 7) // 8)
    for i, b in enumerate(bits):
        if b:
            out[i // 8] |= 1 << (i % 8)
    return bytes(out)


def flag_bits(data):
    out = []
    for byte in data:
        for k in range(8):
            out.append((byte >> k) & 1)
    return out


class _Bad(Exception):
    pass


def _extract(height, pos, total, bits, hashes, st, matched):
    """TraverseAndExtract; st = [bits_used, hashes_used]"""
    if st[0] >= len(bits):
        raise _Bad("overflowed the bits array")
    parent_of_match = bits[st[0]]
    st[0] += 1
    if height == 0 or not parent_of_match:
        if st[1] >= len(hashes):
            raise _Bad("overflowed the hash array")
        h = hashes[st[1]]
        st[1] += 1
        if height == 0 and parent_of_match:
            matched.append((pos, h))
        return h
    left = _extract(height - 1, pos * 2, total, bits, hashes, st, matched)
    if pos * 2 + 1 < tree_width(total, height - 1):
        right = _extract(height - 1, pos * 2 + 1, total, bits, hashes, st, matched)
        if right == left:
            raise _Bad("left and right branches identical (CVE-2012-2459)")
    else:
        right = left
    return merkle_pair(left, right)


MAX_PMT_TXS = 4000000 // (4 * 60)     # MAX_BLOCK_WEIGHT / MIN_TRANSACTION_WEIGHT


def pmt_extract(total, bits, hashes):
    """CPartialMerkleTree::ExtractMatches -> (root, [(index, txid)...]) or None when Core
    returns 0 (malformed).  `bits` is the bit list of the serialised flag bytes (a multiple of 8)."""
    if total == 0 or total > MAX_PMT_TXS:
        return None
    if len(hashes) > total:
        return None
    if len(bits) < len(hashes):
        return None
    st = [0, 0]
    matched = []
    try:
        root = _extract(tree_height(total), 0, total, bits, hashes, st, matched)
    except _Bad:
        return None
    if (st[0] + 7) // 8 != (len(bits) + 7) // 8:       # all bits consumed (except byte padding)
        return None
    if st[1] != len(hashes):                            # all hashes consumed
        return None
    return root, matched


def merkleblock_bytes(header80, total, hashes, bits):
    """BIP37 merkleblock payload: header(80) total(4 LE) varint(#hashes) hashes varint(#flag bytes) flags"""
    fb = flag_bytes(bits)
    return (header80 + total.to_bytes(4, "little") + _cs(len(hashes)) + b"".join(hashes)
            + _cs(len(fb)) + fb)


def _cs(n):
    if n < 0xFD:
        return n.to_bytes(1, "little")
    if n <= 0xFFFF:
        return b"\xfd" + n.to_bytes(2, "little")
    if n <= 0xFFFFFFFF:
        return b"\xfe" + n.to_bytes(4, "little")
    return b"\xff" + n.to_bytes(8, "little")


# ---------------------------------------------------------------------------- compact bits <-> target
def compact_size_byte(n):
    """nSize of a compact value: the top byte"""
    return n >> 24


def compact_mantissa(n):
    return n & 0x007FFFFF


def compact_negative(n):
    """SetCompact *pfNegative"""
    return (n & 0x007FFFFF) != 0 and (n & 0x00800000) != 0


def compact_overflow(n):
    """SetCompact *pfOverflow"""
    size = n >> 24
    word = n & 0x007FFFFF
    return word != 0 and (size > 34 or (word > 0xFF and size > 33) or (word > 0xFFFF and size > 32))


def compact_to_target(n):
    """arith_uint256::SetCompact(nCompact): the 256-bit value (high bits shifted out are lost,
    exactly as arith_uint256 <<=); n is the 32-bit compact value (0 <= n < 2**32)"""
    size = n >> 24
    word = n & 0x007FFFFF
    if size <= 3:
        return word >> (8 * (3 - size))
    return (word << (8 * (size - 3))) % U256


def bit_length(v):
    """arith_uint256::bits(): position of the highest set bit + 1 (0 for zero)"""
    n = 0
    while v >> n != 0:
        n += 1
    return n


def byte_length(v):
    """(bits() + 7) / 8: number of base-256 digits of v (0 for zero) = smallest n with v < 256**n"""
    n = 0
    while v >= 256 ** n:
        n += 1
    return n


def target_to_compact(target):
    """arith_uint256::GetCompact(fNegative=false) for 0 <= target < 2**256"""
    size = byte_length(target)           # nSize = (bits() + 7) / 8
    if size <= 3:
        compact = target << (8 * (3 - size))
    else:
        compact = target >> (8 * (size - 3))
    if compact & 0x00800000:
        compact = compact >> 8
        size = size + 1
    return compact | (size << 24)


def target_to_compact_bytes(target):
    """the 4 bytes of the header field nBits (uint32 little-endian)"""
    return target_to_compact(target).to_bytes(4, "little")


POW_LIMIT_MAINNET = 0x00000000FFFFFFFFFFFFFFFFFFFFFFFFFFFFFFFFFFFFFFFFFFFFFFFFFFFFFFFF
POW_LIMIT_REGTEST = 0x7FFFFFFFFFFFFFFFFFFFFFFFFFFFFFFFFFFFFFFFFFFFFFFFFFFFFFFFFFFFFFFF
POW_LIMIT_SIGNET = 0x00000377AE000000000000000000000000000000000000000000000000000000
POW_LIMIT = {"mainnet": POW_LIMIT_MAINNET, "testnet": POW_LIMIT_MAINNET,
             "signet": POW_LIMIT_SIGNET, "regtest": POW_LIMIT_REGTEST}


def check_pow(hash_le_int, bits, pow_limit):
    """pow.cpp CheckProofOfWork: hash_le_int = UintToArith256(header hash) (the 32 SHA256d bytes
    read little-endian), bits = header nBits as uint32.
        bnTarget.SetCompact(nBits, &fNegative, &fOverflow);
        if (fNegative || bnTarget == 0 || fOverflow || bnTarget > powLimit) return false;
        if (UintToArith256(hash) > bnTarget) return false;
        return true;"""
    target = compact_to_target(bits)
    return (not compact_negative(bits) and not compact_overflow(bits) and target != 0
            and target <= pow_limit and hash_le_int <= target)


def header_pow_ok(header80, pow_limit):
    """CheckProofOfWork of an 80-byte serialised header"""
    return check_pow(int.from_bytes(dsha256(header80), "little"),
                     int.from_bytes(header80[72:76], "little"), pow_limit)


POW_TARGET_TIMESPAN = 14 * 24 * 60 * 60


def retarget(prev_bits, actual_timespan, pow_limit):
    """pow.cpp CalculateNextWorkRequired (fPowNoRetargeting false): prev_bits = nBits of the last
    block of the period (uint32), actual_timespan = last.time - first.time (may be any int64)"""
    if actual_timespan < POW_TARGET_TIMESPAN // 4:
        actual_timespan = POW_TARGET_TIMESPAN // 4
    if actual_timespan > POW_TARGET_TIMESPAN * 4:
        actual_timespan = POW_TARGET_TIMESPAN * 4
    new = compact_to_target(prev_bits)
    new = (new * actual_timespan) % U256          # arith_uint256 *= is modulo 2**256
    new = new // POW_TARGET_TIMESPAN
    if new > pow_limit:
        new = pow_limit
    return target_to_compact(new)


def retarget_bytes(prev_bits4, actual_timespan, pow_limit):
    return retarget(int.from_bytes(prev_bits4, "little"), actual_timespan, pow_limit).to_bytes(4, "little")


# ---------------------------------------------------------------------------- header chains
def header_hash(header80):
    """block hash in display (big-endian) order"""
    return dsha256(header80)[::-1]


def prev_hash_field(header80):
    """hashPrevBlock of a serialised header, in display order"""
    return header80[4:36][::-1]


def chain_linked(headers80):
    """every header after the first names the hash of its predecessor"""
    ok = True
    for i in range(1, len(headers80)):
        ok = ok and prev_hash_field(headers80[i]) == header_hash(headers80[i - 1])
    return ok


def chain_valid(headers80, pow_limit):
    ok = chain_linked(headers80)
    for h in headers80:
        ok = ok and header_pow_ok(h, pow_limit)
    return ok
