"""BIP-0039 and RFC 8018 (PKCS #5 v2.1) section 5.2, written from the texts; independent of /repo.

BIP39 "Generating the mnemonic":
  ENT in {128,160,192,224,256}; CS = ENT/32; checksum = first CS bits of SHA256(entropy);
  ENT||CS is split into groups of 11 bits, each the index (0..2047) of one word; MS = (ENT+CS)/11.
BIP39 "From mnemonic to seed":
  seed = PBKDF2(PRF = HMAC-SHA512, Password = mnemonic sentence (UTF-8 NFKD),
                Salt = "mnemonic" + passphrase (UTF-8 NFKD), c = 2048, dkLen = 64 bytes)
BIP32 "Master key generation":  I = HMAC-SHA512(Key = "Bitcoin seed", Data = S); IL master secret key
  (invalid if 0 or >= n), IR master chain code.
RFC 8018 5.2:  DK = T_1 || ... || T_l truncated to dkLen,  T_i = F(P, S, c, i) = U_1 xor ... xor U_c,
  U_1 = PRF(P, S || INT(i)),  U_j = PRF(P, U_{j-1}),  INT(i) = four-octet big-endian i,
  l = CEIL(dkLen / hLen);  "derived key too long" if dkLen > (2^32 - 1) * hLen.
"""
import hashlib
import hmac

ENT_SIZES = (128, 160, 192, 224, 256)          # bits
WORD_COUNTS = (12, 15, 18, 21, 24)
SECP256K1_N = 0xFFFFFFFFFFFFFFFFFFFFFFFFFFFFFFFEBAAEDCE6AF48A03BBFD25E8CD0364141


def cs_bits(ent_bits):
    """CS = ENT / 32"""
    return ent_bits // 32


def word_count(ent_bits):
    """MS = (ENT + CS) / 11"""
    return (ent_bits + ent_bits // 32) // 11


def checksum(entropy):
    """the first ENT/32 bits of SHA256(entropy) as an integer (ENT/32 <= 8, so they all sit in byte 0)"""
    cs = len(entropy) * 8 // 32
    return hashlib.sha256(entropy).digest()[0] // 2 ** (8 - cs)


def ent_cs(entropy):
    """the integer whose binary expansion (ENT+CS bits, msb first) is ENT || CS"""
    cs = len(entropy) * 8 // 32
    return int.from_bytes(entropy, "big") * 2 ** cs + checksum(entropy)


def indices(entropy):
    """word indices of the mnemonic of `entropy` (len(entropy)*8 must be an allowed ENT)"""
    w = word_count(len(entropy) * 8)
    n = ent_cs(entropy)
    return [n // 2048 ** (w - 1 - i) % 2048 for i in range(w)]


def indices_bitstring(entropy):
    """the same, literally on '0'/'1' strings as the BIP words it (cross-check of `indices`; concrete only)"""
    ent = "".join(format(b, "08b") for b in entropy)
    h = "".join(format(b, "08b") for b in hashlib.sha256(entropy).digest())
    bits = ent + h[:len(ent) // 32]
    return [int(bits[k:k + 11], 2) for k in range(0, len(bits), 11)]


def valid_entropy_len(nbytes):
    return nbytes * 8 in ENT_SIZES


def valid_word_count(w):
    return w in WORD_COUNTS


def split_indices(idx):
    """(entropy bytes, checksum value) carried by a list of 11-bit indices of valid length"""
    w = len(idx)
    n = 0
    for x in idx:
        n = n * 2048 + x
    cs = w * 11 // 33            # ENT+CS = 33*CS
    nbytes = (w * 11 - cs) // 8
    return (n // 2 ** cs).to_bytes(nbytes, "big"), n % 2 ** cs


def indices_valid(idx):
    """a sequence of word indices is a valid BIP39 mnemonic iff its length is 12/15/18/21/24 and the
    trailing CS bits equal the checksum of the leading ENT bits"""
    if len(idx) not in WORD_COUNTS:
        return False
    e, c = split_indices(idx)
    return c == checksum(e)


def decode(idx):
    """entropy of a valid index sequence, None if invalid"""
    if not indices_valid(idx):
        return None
    return split_indices(idx)[0]


# --------------------------------------------------------------------------- word list facts (BIP39 "Wordlist")
def wordlist_problems(words, nwords=2048, prefix=4):
    """list of violated requirements: exactly nwords distinct words; sorted; the first `prefix` letters
    identify the word unambiguously (distinct prefixes; a word shorter than or equal to `prefix` letters is
    not the prefix of another one)"""
    out = []
    if len(words) != nwords:
        out.append("count %d" % len(words))
    if len(set(words)) != len(words):
        out.append("duplicate words")
    if list(words) != sorted(words):
        out.append("not sorted")
    pref = {}
    for w in words:
        pref.setdefault(w[:prefix], []).append(w)
    for p, ws in pref.items():
        if len(ws) > 1:
            out.append("prefix %r shared by %r" % (p, ws))
    full = set(words)
    for w in words:
        if len(w) > prefix and w[:prefix] in full:
            out.append("prefix of %r is the word %r" % (w, w[:prefix]))
    for w in words:
        if not (w.isalpha() and w.islower() and w.isascii()):
            out.append("word %r not lower-case ascii letters" % w)
    return out


# --------------------------------------------------------------------------- RFC 8018 5.2 PBKDF2
def xor_bytes(a, b):
    return bytes(x ^ y for x, y in zip(a, b))


def int4(i):
    """INT(i): four-octet encoding of the integer i, most significant octet first"""
    return i.to_bytes(4, "big")


def prf_hmac(digest_name):
    """PRF(P, data) = HMAC-<digest>(key = P, data)"""
    def prf(p, data):
        return hmac.new(p, data, digest_name).digest()
    return prf


def pbkdf2_F(prf, p, s, c, i):
    """F(P, S, c, i) = U_1 xor U_2 xor ... xor U_c"""
    u = prf(p, s + int4(i))
    t = u
    for _ in range(c - 1):
        u = prf(p, u)
        t = xor_bytes(t, u)
    return t


def pbkdf2(prf, hlen, p, s, c, dklen):
    """RFC 8018 5.2 steps 1-5; returns None for 'derived key too long'"""
    if dklen > (2 ** 32 - 1) * hlen:
        return None
    l = -(-dklen // hlen)
    dk = b""
    for i in range(1, l + 1):
        dk = dk + pbkdf2_F(prf, p, s, c, i)
    return dk[:dklen]


def pbkdf2_hmac(digest_name, p, s, c, dklen):
    return pbkdf2(prf_hmac(digest_name), hashlib.new(digest_name).digest_size, p, s, c, dklen)


def F_sha512(p, s, c, i):
    """F with PRF = HMAC-SHA512 written without closures (usable by the symbolic evaluator)"""
    u = hmac.new(p, s + i.to_bytes(4, "big"), "sha512").digest()
    t = u
    for _ in range(c - 1):
        u = hmac.new(p, u, "sha512").digest()
        t = bytes(x ^ y for x, y in zip(t, u))
    return t


def F_sha1(p, s, c, i):
    u = hmac.new(p, s + i.to_bytes(4, "big"), "sha1").digest()
    t = u
    for _ in range(c - 1):
        u = hmac.new(p, u, "sha1").digest()
        t = bytes(x ^ y for x, y in zip(t, u))
    return t


def bip39_seed(sentence, passphrase):
    """sentence: bytes of the (already NFKD-normalised) mnemonic sentence; passphrase: bytes"""
    return pbkdf2_hmac("sha512", sentence, b"mnemonic" + passphrase, 2048, 64)


def bip32_master(seed):
    """(secret int, chain code) or None when IL is 0 or >= n"""
    i64 = hmac.new(b"Bitcoin seed", seed, "sha512").digest()
    k = int.from_bytes(i64[:32], "big")
    if k == 0 or k >= SECP256K1_N:
        return None
    return k, i64[32:]


# --------------------------------------------------------------------------- closure-free instances
def pbkdf2_sha512(p, s, c, dklen):
    """PBKDF2 with PRF = HMAC-SHA512 (hLen = 64): T_1 || T_2 || ... truncated to dklen"""
    dk = b""
    for i in range(1, -(-dklen // 64) + 1):
        dk = dk + F_sha512(p, s, c, i)
    return dk[:dklen]


def pbkdf2_sha1(p, s, c, dklen):
    """PBKDF2 with PRF = HMAC-SHA1 (hLen = 20)"""
    dk = b""
    for i in range(1, -(-dklen // 20) + 1):
        dk = dk + F_sha1(p, s, c, i)
    return dk[:dklen]


def as_bytes(x):
    """passwords/salts given as text are taken as their UTF-8 encoding"""
    return x if isinstance(x, bytes) else x.encode("utf-8")


# --------------------------------------------------------------------------- English word list (data)
ENGLISH_SHA256 = "2f5eed53a4727b4bf8880d8f3f199efc90e58503646d9ff8eff3a2ed3b24dbda"   # bips/bip-0039/english.txt
_ENGLISH = None


def english_words(path="/repo/buidl/bip39_words.txt"):
    """the 2048 words, read from the data file (not through buidl code); the file is pinned to the
    canonical english.txt by SHA-256 in the C14 `wordlist` table"""
    global _ENGLISH
    if _ENGLISH is None:
        with open(path, "rb") as f:
            _ENGLISH = tuple(w.decode("ascii") for w in f.read().split())
    return _ENGLISH


def sentence(idx):
    """mnemonic sentence (full words separated by one ASCII space) as bytes"""
    w = english_words()
    return " ".join(w[i] for i in idx).encode("ascii")


def seed_of_indices(idx, passphrase):
    return bip39_seed(sentence(idx), passphrase)


# --------------------------------------------------------------------------- BIP32 serialisation of the master key
_B58 = "123456789ABCDEFGHJKLMNPQRSTUVWXYZabcdefghijkmnopqrstuvwxyz"


def base58check(payload):
    data = payload + hashlib.sha256(hashlib.sha256(payload).digest()).digest()[:4]
    n = int.from_bytes(data, "big")
    out = ""
    while n:
        n, r = divmod(n, 58)
        out = _B58[r] + out
    pad = len(data) - len(data.lstrip(b"\x00"))
    return "1" * pad + out


def master_xprv(seed):
    """mainnet xprv of the master node: version 0x0488ADE4, depth 0, parent fingerprint 0, child number 0,
    chain code, 0x00 || ser256(k)"""
    k, c = bip32_master(seed)
    return base58check(bytes.fromhex("0488ade4") + b"\x00" + bytes(4) + bytes(4) + c + b"\x00" + k.to_bytes(32, "big"))
