"""abstract commutative group view of curve points (property C03.4): concrete versions work on real
buidl Point objects (naive repeated addition as the reference for scalar multiplication); under the
symbolic engine they are terms of an uninterpreted group (verif/pyvc/fieldmode.py, group mode)."""


def add(p, q):
    return p + q


def nsmul(k, p):
    """k-fold sum p + ... + p (k >= 0) by naive repeated addition"""
    r = p.__class__(None, None, p.a, p.b)
    for _ in range(k):
        r = r + p
    return r


def eq(p, q):
    return p == q


def binary_step(c, q, r=None):
    """lemma instance (Lean: nsmul_binary_step): c•q = (c/2)•(q+q) + (c%2)•q ; concretely just checked"""
    if c < 0:
        return True
    if c > 64:
        return True
    return nsmul(c, q) == add(nsmul(c // 2, add(q, q)), nsmul(c % 2, q))
