"""BIP32 hierarchical deterministic keys and SLIP-132 version bytes, written from the documents
(https://github.com/bitcoin/bips/blob/master/bip-0032.mediawiki,
https://github.com/satoshilabs/slips/blob/master/slip-0132.md), independently of the repository.

A private node is the pair (k, c): k an integer in [1, n-1], c the 32-byte chain code.
A public node is the pair (K, c): K a point of verif.specs.curve (tuple / real S256Point / abstract point).
Functions return None where the BIP says "the resulting key is invalid" (probability < 2^-127); the
contracts exclude those cases through the *_defined predicates (assumption A-NEGL), never silently."""
import hashlib
import hmac

from . import curve

N = curve.N
HARDENED = 2**31           # "indices >= 2^31 are hardened"
MAX_INDEX = 2**32 - 1      # ser32
MAX_DEPTH = 255            # one byte in the serialisation


def hmac_sha512(key, msg):
    return hmac.new(key, msg, hashlib.sha512).digest()


def ser32(i):
    return i.to_bytes(4, "big")


def ser256(p):
    return p.to_bytes(32, "big")


def serP(K):
    """SEC1 compressed form: 0x02 / 0x03 (y even / odd) followed by ser256(x)"""
    return (b"\x02" if curve.has_even_y(K) else b"\x03") + ser256(curve.x_of(K))


def parse256(b):
    return int.from_bytes(b, "big")


def hash160(b):
    return hashlib.new("ripemd160", hashlib.sha256(b).digest()).digest()


# ---------------------------------------------------------------------------- master key generation
def master_I(seed):
    return hmac_sha512(b"Bitcoin seed", seed)


def master_defined(seed):
    """A-NEGL: 'In case parse256(IL) is 0 or parse256(IL) >= n, the master key is invalid'"""
    il = parse256(master_I(seed)[:32])
    return 1 <= il < N


def master(seed):
    """(k, c) of the master node for a seed byte string, or None when invalid"""
    I = master_I(seed)
    il = parse256(I[:32])
    if il == 0 or il >= N:
        return None
    return (il, I[32:])


# ---------------------------------------------------------------------------- child key derivation
def ser_hardened_key(k):
    """0x00 || ser256(k), written as the 33-byte big-endian form of k: the same string for every
    k < 2^256 (proved as the lemma contract `verif.specs.hd.ser_hardened_key`).  The single-term form
    is what lets the symbolic engine see the HMAC argument of code and spec as the same term."""
    return k.to_bytes(33, "big")


def ckd_priv_data(k, i):
    if i >= HARDENED:
        return ser_hardened_key(k) + ser32(i)
    return serP(curve.mul_G(k)) + ser32(i)


def ckd_priv_I(node, i):
    k, c = node
    return hmac_sha512(c, ckd_priv_data(k, i))


def ckd_priv_defined(node, i):
    """A-NEGL: parse256(IL) < n and ki != 0"""
    k, c = node
    il = parse256(ckd_priv_I(node, i)[:32])
    return il < N and (il + k) % N != 0


def ckd_priv(node, i):
    """CKDpriv((k_par, c_par), i) -> (k_i, c_i), 0 <= i < 2^32"""
    k, c = node
    I = ckd_priv_I(node, i)
    il = parse256(I[:32])
    ki = (il + k) % N
    if il >= N or ki == 0:
        return None
    return (ki, I[32:])


def ckd_pub_I(node, i):
    K, c = node
    return hmac_sha512(c, serP(K) + ser32(i))


def ckd_pub_defined(node, i):
    """A-NEGL: parse256(IL) < n and K_i is not the point at infinity"""
    K, c = node
    il = parse256(ckd_pub_I(node, i)[:32])
    return il < N and not curve.is_inf(curve.add(curve.mul_G(il), K))


def ckd_pub(node, i):
    """CKDpub((K_par, c_par), i) -> (K_i, c_i) for 0 <= i < 2^31; None ('failure') for a hardened i,
    None as well in the negligible invalid cases"""
    K, c = node
    if i >= HARDENED:
        return None
    I = ckd_pub_I(node, i)
    il = parse256(I[:32])
    Ki = curve.add(curve.mul_G(il), K)
    if il >= N or curve.is_inf(Ki):
        return None
    return (Ki, I[32:])


def neuter(node):
    """N((k, c)) = (point(k), c)"""
    k, c = node
    return (curve.mul_G(k), c)


def ckd_defined(node, i):
    """A-NEGL predicate for a private parent: private derivation is valid, and for a normal index
    so is the public derivation of the neutered parent (the same I_L)"""
    return ckd_priv_defined(node, i)


def identifier(K):
    return hash160(serP(K))


def fingerprint(K):
    """first 32 bits of the key identifier HASH160(serP(K))"""
    return identifier(K)[:4]


def fingerprint_priv(k):
    return fingerprint(curve.mul_G(k))


# ---------------------------------------------------------------------------- paths
def path_indices(path):
    """BIP32 path notation -> list of indices, or None when the string is not a path.
    'm' (or 'M') optionally followed by '/'-separated components; a component is a decimal number
    below 2^31 written with ASCII digits, optionally followed by one hardened marker ' or h or H."""
    if not isinstance(path, str) or len(path) == 0 or path[0] not in "mM":
        return None
    if len(path) == 1:
        return []
    if path[1] != "/":
        return None
    out = []
    for comp in path[2:].split("/"):
        hard = False
        if comp[-1:] in ("'", "h", "H") and len(comp) > 0:
            hard = True
            comp = comp[:-1]
        if len(comp) == 0:
            return None
        for ch in comp:
            if ch not in "0123456789":
                return None
        v = int(comp)
        if v >= HARDENED:
            return None
        out.append(v + HARDENED if hard else v)
    return out


def path_valid(path):
    """BIP32 notation and at most 255 levels (the depth field of the serialisation is one byte)"""
    idx = path_indices(path)
    return idx is not None and len(idx) <= MAX_DEPTH


def path_is_public(path):
    """a valid path without hardened components (derivable from an extended public key)"""
    idx = path_indices(path)
    if idx is None:
        return False
    for i in idx:
        if i >= HARDENED:
            return False
    return True


def path_string(indices, marker="'"):
    """canonical text of a list of indices"""
    s = "m"
    for i in indices:
        s += "/" + (str(i - HARDENED) + marker if i >= HARDENED else str(i))
    return s


ZERO_FP = b"\x00\x00\x00\x00"


def derive_priv(node, indices, depth=0, fp=ZERO_FP, num=0):
    """fold CKDpriv over a list of indices, carrying the serialisation metadata:
    -> (k, c, depth, parent_fingerprint, child_number), or None.  The defaults are those of a master node."""
    k, c = node
    for i in indices:
        child = ckd_priv((k, c), i)
        if child is None:
            return None
        fp = fingerprint_priv(k)
        k, c = child
        depth += 1
        num = i
    return (k, c, depth, fp, num)


def priv_fields_equal(fields, node):
    """fields = (secret, chain code, depth, parent fp, child number, point, chain code, depth, parent fp, child number)
    of a real private node and of its public twin; node = (k, c, depth, fp, num) of the spec"""
    k, c, depth, fp, num = node
    return (fields[0] == k and fields[1] == c and fields[2] == depth and fields[3] == fp and fields[4] == num and
            curve.same(fields[5], curve.mul_G(k)) and fields[6] == c and fields[7] == depth and fields[8] == fp and fields[9] == num)


def pub_fields_equal(fields, node):
    K, c, depth, fp, num = node
    return curve.same(fields[0], K) and fields[1] == c and fields[2] == depth and fields[3] == fp and fields[4] == num


def derive_pub(node, indices, depth=0, fp=ZERO_FP, num=0):
    K, c = node
    for i in indices:
        child = ckd_pub((K, c), i)
        if child is None:
            return None
        fp = fingerprint(K)
        K, c = child
        depth += 1
        num = i
    return (K, c, depth, fp, num)


# ---------------------------------------------------------------------------- serialisation
# SLIP-132 registered HD version bytes: name -> (public, private)
SLIP132 = {
    # Bitcoin mainnet
    "x": ("0488b21e", "0488ade4"),   # xpub / xprv   P2PKH or P2SH           m/44'/0'
    "y": ("049d7cb2", "049d7878"),   # ypub / yprv   P2WPKH in P2SH          m/49'/0'
    "z": ("04b24746", "04b2430c"),   # zpub / zprv   P2WPKH                  m/84'/0'
    "Y": ("0295b43f", "0295b005"),   # Ypub / Yprv   multisig P2WSH in P2SH
    "Z": ("02aa7ed3", "02aa7a99"),   # Zpub / Zprv   multisig P2WSH
    # Bitcoin testnet
    "t": ("043587cf", "04358394"),   # tpub / tprv
    "u": ("044a5262", "044a4e28"),   # upub / uprv
    "v": ("045f1cf6", "045f18bc"),   # vpub / vprv
    "U": ("024289ef", "024285b5"),   # Upub / Uprv
    "V": ("02575483", "02575048"),   # Vpub / Vprv
}
MAINNET_LETTERS = "xyzYZ"
TESTNET_LETTERS = "tuvUV"


def version_pub(letter):
    return bytes.fromhex(SLIP132[letter][0])


def version_prv(letter):
    return bytes.fromhex(SLIP132[letter][1])


ALL_PUB_VERSIONS = [bytes.fromhex(v[0]) for v in SLIP132.values()]
ALL_PRV_VERSIONS = [bytes.fromhex(v[1]) for v in SLIP132.values()]


def version_info(version):
    """4 version bytes -> (letter, 'pub' | 'prv', 'mainnet' | 'testnet') or None"""
    for letter in SLIP132:
        for j in (0, 1):
            if bytes.fromhex(SLIP132[letter][j]) == version:
                return (letter, "pub" if j == 0 else "prv", "mainnet" if letter in MAINNET_LETTERS else "testnet")
    return None


def xkey_ser(version, depth, parent_fp, child_number, chain_code, key33):
    """the 78-byte structure: 4 version | 1 depth | 4 parent fingerprint | 4 child number (ser32) |
    32 chain code | 33 key data (serP(K) or 0x00 || ser256(k))"""
    return version + bytes([depth]) + parent_fp + ser32(child_number) + chain_code + key33


def xprv_ser(version, depth, parent_fp, child_number, chain_code, k):
    return xkey_ser(version, depth, parent_fp, child_number, chain_code, b"\x00" + ser256(k))


def xpub_ser(version, depth, parent_fp, child_number, chain_code, K):
    return xkey_ser(version, depth, parent_fp, child_number, chain_code, serP(K))


def xkey_fields(raw):
    """78 bytes -> (version, depth, parent_fp, child_number, chain_code, key33)"""
    return (raw[0:4], raw[4], raw[5:9], parse256(raw[9:13]), raw[13:45], raw[45:78])


def point_from_sec33(b):
    """compressed SEC1 -> curve point or None (prefix not 02/03, x >= p, or x not on the curve)"""
    if len(b) != 33 or b[0] not in (2, 3):
        return None
    pt = curve.lift_x(parse256(b[1:]))
    if pt is None:
        return None
    if b[0] == 3:
        return curve.mul(N - 1, pt)       # lift_x gives the even-y point; its negation has the odd y
    return pt


def xkey_reject_reason(raw, master_rule=True):
    """why a payload must be refused when imported (BIP32 'Serialization format' and test vector 5),
    or None for a well-formed extended key.  master_rule=False leaves out the two test-vector-5 rules about
    depth 0 (parent fingerprint and child number must be zero): the structural well-formedness that a
    serialise/parse round trip needs."""
    if len(raw) != 78:
        return "length"
    version, depth, fp, num, cc, key = xkey_fields(raw)
    info = version_info(version)
    if info is None:
        return "unknown version"
    if master_rule and depth == 0 and fp != b"\x00\x00\x00\x00":
        return "zero depth with non-zero parent fingerprint"
    if master_rule and depth == 0 and num != 0:
        return "zero depth with non-zero index"
    if info[1] == "prv":
        if key[0] != 0:
            return "private key data must start with 0x00"
        if not 1 <= parse256(key[1:]) < N:
            return "private key not in 1..n-1"
    else:
        if key[0] not in (2, 3):
            return "public key data must start with 0x02 or 0x03"
        if point_from_sec33(key) is None:
            return "public key not on the curve"
    return None


def b58_xkey(raw):
    """Base58Check text of a 78-byte payload"""
    from . import text
    return text.base58check_encode(raw)


def xkey_text_decode(s, master_rule=True):
    """text -> 78-byte payload of a well-formed extended key, or None"""
    from . import text
    raw = text.base58check_decode(s)
    if raw is None or xkey_reject_reason(raw, master_rule) is not None:
        return None
    return raw
