"""marker for recursively defined spec functions: the VC generator treats applications as
uninterpreted terms that are unfolded a bounded number of times (see calls.py: call_recursive)"""


def recursive(returns, fuel=2):
    def deco(f):
        f._pyvc_rec = {"returns": returns, "fuel": fuel}
        return f
    return deco
