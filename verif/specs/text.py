"""Text-encoding spec functions (C09, C16, C20), written from the documents, not from /repo:

* Base58 / Base58Check: https://en.bitcoin.it/wiki/Base58Check_encoding (big-endian base conversion,
  one '1' per leading zero byte, 4-byte double-SHA256 checksum), WIF: https://en.bitcoin.it/wiki/WIF
* Bech32 / Bech32m / segwit addresses: BIP173, BIP350.  The checksum is implemented here as what
  the BIPs say it *is* -- the remainder of a polynomial over GF(32) modulo the BCH generator
  g(x) = x^6 + {29}x^5 + {22}x^4 + {20}x^3 + {21}x^2 + {29}x + {18}  (field GF(2)[a]/(a^5 + a^3 + 1)) --
  rather than with the packed 30-bit GEN[] trick of the reference code, so that agreement with
  buidl.bech32.bech32_polymod is a real cross-check.
* Output-descriptor checksum: Bitcoin Core src/script/descriptor.cpp (DescriptorChecksum / PolyMod):
  same field, g(x) = x^8 + {30}x^7 + {23}x^6 + {15}x^5 + {14}x^4 + {10}x^3 + {6}x^2 + {12}x + {9},
  input symbols = (position & 31) of each character plus one class symbol per group of 3 characters.
* bc32: Blockchain Commons bcr-2020-004 (bech32 data part only, checksum over [0] + data, constant 0x3fffffff)
* UR v0 `ur:bytes`: bcr-2020-005 (payload = bc32(CBOR byte string), digest = bc32(sha256(CBOR)))
* CBOR byte string (major type 2) heads: RFC 8949 section 3 / 3.1.

Every decoder returns None for "reject".  Pure Python; the byte-level functions stay inside the pyvc subset.
"""
import hashlib

# ------------------------------------------------------------------------------------------- base58
B58 = "123456789ABCDEFGHJKLMNPQRSTUVWXYZabcdefghijkmnopqrstuvwxyz"
from ._rec import recursive


def _dsha(b):
    return hashlib.sha256(hashlib.sha256(b).digest()).digest()


def base58_encode(b):
    """big-endian base-58 digits of the number, preceded by one '1' per leading zero byte"""
    zeros = 0
    while zeros < len(b) and b[zeros] == 0:
        zeros += 1
    n = int.from_bytes(b, "big")
    digits = []
    while n > 0:
        digits.append(B58[n % 58])
        n //= 58
    return "1" * zeros + "".join(reversed(digits))


def base58_decode(s):
    """inverse of base58_encode on its image; None if s contains a character outside the alphabet"""
    ones = 0
    while ones < len(s) and s[ones] == "1":
        ones += 1
    n = 0
    for ch in s[ones:]:
        d = B58.find(ch)
        if d < 0:
            return None
        n = n * 58 + d
    body = n.to_bytes((n.bit_length() + 7) // 8, "big")
    return bytes(ones) + body


def base58check_encode(payload):
    return base58_encode(payload + _dsha(payload)[:4])


def base58check_decode(s):
    """payload, or None when s is not the Base58Check encoding of anything"""
    if not isinstance(s, str):
        return None
    raw = base58_decode(s)
    if raw is None or len(raw) < 4:
        return None
    if _dsha(raw[:-4])[:4] != raw[-4:]:
        return None
    return raw[:-4]


def base58check_valid(s):
    return base58check_decode(s) is not None


# ------------------------------------------------------------------------------------------- GF(32) BCH codes
def gf32_mul(a, b):
    """product in GF(2)[a]/(a^5 + a^3 + 1), elements as 5-bit ints; b must be a concrete int.
    Written without data-dependent branches on `a` (bit * constant instead of if) so that the same text is a
    small SMT term when `a` is symbolic."""
    r = 0
    for i in range(5):
        if (b >> i) & 1:
            r ^= a << i
    for i in (8, 7, 6, 5):                  # reduce degree 8..5 with a^5 = a^3 + 1
        r ^= ((r >> i) & 1) * (0b101001 << (i - 5))
    return r


BECH32_GEN = (29, 22, 20, 21, 29, 18)                 # g(x) without the leading x^6
DESC_GEN = (30, 23, 15, 14, 10, 6, 12, 9)              # Core descriptor code, without x^8


def bch_remainder(values, gen):
    """remainder of  x^len(values) * 1 + sum values[i] x^(len-1-i)  modulo x^deg + gen, as coefficient tuple
    (highest degree first) -- i.e. a shift register started at the polynomial '1'"""
    deg = len(gen)
    reg = [0] * (deg - 1) + [1]
    for v in values:
        top = reg[0]
        reg = reg[1:] + [v]
        for i in range(deg):
            reg[i] ^= gf32_mul(top, gen[i])
    return tuple(reg)


def bch_step(reg, v, gen):
    """one shift-register step on a PACKED register (5 bits per coefficient, highest first)"""
    deg = len(gen)
    top = reg >> (5 * (deg - 1))
    out = ((reg & ((1 << (5 * (deg - 1))) - 1)) << 5) ^ v
    for i in range(deg):
        out ^= gf32_mul(top, gen[i]) << (5 * (deg - 1 - i))
    return out


def _pack(coeffs):
    n = 0
    for c in coeffs:
        n = (n << 5) | c
    return n


def bech32_polymod(values):
    """BIP173 polymod as a 30-bit integer"""
    return _pack(bch_remainder(values, BECH32_GEN))


@recursive(returns="int:30", fuel=1)
def polymod_rec(values, k):
    """BIP173 checksum register after the first k symbols, defined by recursion on k: the remainder polynomial
    (packed, 5 bits per coefficient) is advanced by one GF(32) shift-register step per symbol, from the polynomial '1'"""
    if k == 0:
        return 1
    return bch_step(polymod_rec(values, k - 1), values[k - 1], BECH32_GEN)


BECH32_CONST = 1
BECH32M_CONST = 0x2BC830A3
BC32_CONST = 0x3FFFFFFF
CHARSET = "qpzry9x8gf2tvdw0s3jn54khce6mua7l"


def hrp_expand(hrp):
    return [ord(c) >> 5 for c in hrp] + [0] + [ord(c) & 31 for c in hrp]


def bech32_create_checksum(hrp, data, const):
    pm = bech32_polymod(hrp_expand(hrp) + list(data) + [0] * 6) ^ const
    return [(pm >> (5 * (5 - i))) & 31 for i in range(6)]


def bech32_verify_checksum(hrp, data, const):
    return bech32_polymod(hrp_expand(hrp) + list(data)) == const


def bech32_encode(hrp, data, const):
    return hrp + "1" + "".join(CHARSET[d] for d in list(data) + bech32_create_checksum(hrp, data, const))


def bech32_decode(s):
    """BIP173 'Bech32' string validation: -> (hrp_lowercase, data_without_checksum, const) with const the one of
    the two constants that verifies, or None"""
    if not isinstance(s, str) or len(s) > 90:
        return None
    if any(ord(c) < 33 or ord(c) > 126 for c in s):
        return None
    if s.lower() != s and s.upper() != s:
        return None
    s = s.lower()
    pos = s.rfind("1")
    if pos < 1 or pos + 7 > len(s):
        return None
    hrp, tail = s[:pos], s[pos + 1:]
    data = [CHARSET.find(c) for c in tail]
    if any(d < 0 for d in data):
        return None
    pm = bech32_polymod(hrp_expand(hrp) + data)
    if pm == BECH32_CONST:
        return hrp, data[:-6], BECH32_CONST
    if pm == BECH32M_CONST:
        return hrp, data[:-6], BECH32M_CONST
    return None


def regroup(data, frombits, tobits, pad):
    """BIP173 convertbits: None on invalid input / invalid padding"""
    acc = 0
    bits = 0
    out = []
    for v in data:
        if v < 0 or v >> frombits:
            return None
        acc = (acc << frombits) | v
        bits += frombits
        while bits >= tobits:
            bits -= tobits
            out.append((acc >> bits) & ((1 << tobits) - 1))
        acc &= (1 << bits) - 1
    if pad:
        if bits:
            out.append((acc << (tobits - bits)) & ((1 << tobits) - 1))
    elif bits >= frombits or acc != 0:
        return None
    return out


SEGWIT_HRP = {"mainnet": "bc", "testnet": "tb", "signet": "tb", "regtest": "bcrt"}
HRP_NETS = {"bc": ("mainnet",), "tb": ("testnet", "signet"), "bcrt": ("regtest",)}


def segwit_const(version):
    """BIP350: version 0 -> Bech32, versions 1..16 -> Bech32m"""
    return BECH32_CONST if version == 0 else BECH32M_CONST


def segwit_valid_program(version, n):
    """BIP141/BIP173: 2..40 bytes, and exactly 20 or 32 for version 0"""
    return 0 <= version <= 16 and 2 <= n <= 40 and (version != 0 or n in (20, 32))


def segwit_addr_encode(hrp, version, program, strict=True):
    """address of witness program `program` (bytes) of `version`; None if not encodable.
    strict=False drops only the 'v0 must be 20 or 32 bytes' rule (codec-level round trip)."""
    if not (0 <= version <= 16 and 2 <= len(program) <= 40):
        return None
    if strict and not segwit_valid_program(version, len(program)):
        return None
    return bech32_encode(hrp, [version] + regroup(program, 8, 5, True), segwit_const(version))


def segwit_reject_reason(addr, hrps=("bc", "tb", "bcrt"), strict=True):
    """None when addr is a valid segwit address, else the FIRST rule of BIP173/BIP350 it breaks:
    'bech32'    not a Bech32/Bech32m string at all (length > 90, character set, mixed case, separator, checksum)
    'hrp'       human-readable part is not one of the known networks
    'length'    empty data part, or witness program shorter than 2 / longer than 40 bytes
    'version'   witness version above 16
    'constant'  Bech32 checksum on version 1..16 or Bech32m checksum on version 0
    'padding'   more than 4 padding bits, or non-zero padding bits
    'v0-length' version 0 program that is not 20 or 32 bytes (only when strict)"""
    dec = bech32_decode(addr)
    if dec is None:
        return "bech32"
    hrp, data, const = dec
    if hrp not in hrps:
        return "hrp"
    if len(data) < 1:
        return "length"
    version = data[0]
    if version > 16:
        return "version"
    if const != segwit_const(version):
        return "constant"
    prog = regroup(data[1:], 5, 8, False)
    if prog is None:
        return "padding"
    if not (2 <= len(prog) <= 40):
        return "length"
    if strict and not segwit_valid_program(version, len(prog)):
        return "v0-length"
    return None


def segwit_addr_decode(addr, hrps=("bc", "tb", "bcrt"), strict=True):
    """(hrp, version, program) or None -- BIP173 'Segwit address format' + BIP350 constant rule"""
    if segwit_reject_reason(addr, hrps, strict) is not None:
        return None
    hrp, data, const = bech32_decode(addr)
    return hrp, data[0], bytes(regroup(data[1:], 5, 8, False))


def witness_spk(version, program):
    """scriptPubKey of a witness program: OP_n, push"""
    return bytes([0 if version == 0 else 0x50 + version, len(program)]) + program


def witness_parts(spk):
    """(version, program) when spk is exactly a witness-program scriptPubKey (BIP141: 1-byte OP_0/OP_1..OP_16 followed
    by one direct push of 2..40 bytes), else None"""
    if not (4 <= len(spk) <= 42) or spk[1] != len(spk) - 2:
        return None
    if spk[0] == 0:
        return 0, spk[2:]
    if 0x51 <= spk[0] <= 0x60:
        return spk[0] - 0x50, spk[2:]
    return None


# ------------------------------------------------------------------------------------------- addresses <-> scripts
B58_VERSIONS = {"mainnet": (0x00, 0x05), "testnet": (0x6F, 0xC4), "signet": (0x6F, 0xC4), "regtest": (0x6F, 0xC4)}
NETWORKS = ("mainnet", "testnet", "signet", "regtest")
TEMPLATES = ("p2pkh", "p2sh", "p2wpkh", "p2wsh", "p2tr")
TEMPLATE_HASHLEN = {"p2pkh": 20, "p2sh": 20, "p2wpkh": 20, "p2wsh": 32, "p2tr": 32}


def template_spk(kind, h):
    """raw scriptPubKey bytes of the five standard templates"""
    if kind == "p2pkh":
        return b"\x76\xa9\x14" + h + b"\x88\xac"
    if kind == "p2sh":
        return b"\xa9\x14" + h + b"\x87"
    if kind == "p2wpkh" or kind == "p2wsh":
        return witness_spk(0, h)
    if kind == "p2tr":
        return witness_spk(1, h)
    return None


def classify_spk(spk):
    """(kind, hash) of a standard scriptPubKey, else None"""
    if len(spk) == 25 and spk[:3] == b"\x76\xa9\x14" and spk[23:] == b"\x88\xac":
        return "p2pkh", spk[3:23]
    if len(spk) == 23 and spk[:2] == b"\xa9\x14" and spk[22:] == b"\x87":
        return "p2sh", spk[2:22]
    if len(spk) == 22 and spk[:2] == b"\x00\x14":
        return "p2wpkh", spk[2:]
    if len(spk) == 34 and spk[:2] == b"\x00\x20":
        return "p2wsh", spk[2:]
    if len(spk) == 34 and spk[:2] == b"\x51\x20":
        return "p2tr", spk[2:]
    return None


def spk_to_address(spk, network):
    c = classify_spk(spk)
    if c is None or network not in NETWORKS:
        return None
    kind, h = c
    if kind == "p2pkh":
        return base58check_encode(bytes([B58_VERSIONS[network][0]]) + h)
    if kind == "p2sh":
        return base58check_encode(bytes([B58_VERSIONS[network][1]]) + h)
    return segwit_addr_encode(SEGWIT_HRP[network], spk[0] and spk[0] - 0x50, h)


def address_reject_reason(addr):
    """None when addr is the address of one of the five standard templates on some network, else why not:
    'b58-version' valid Base58Check, 21-byte payload, version byte is not a P2PKH/P2SH version
    'b58-length'  valid Base58Check whose payload is not 1 + 20 bytes
    'segwit-<r>'  not Base58Check and not a valid segwit address (r = segwit_reject_reason)
    'witness-nonstandard' valid segwit address that is none of P2WPKH / P2WSH / P2TR (version 1 with != 32 bytes, versions 2..16)"""
    p = base58check_decode(addr)
    if p is not None:
        if len(p) != 21:
            return "b58-length"
        if p[0] not in (0x00, 0x05, 0x6F, 0xC4):
            return "b58-version"
        return None
    r = segwit_reject_reason(addr)
    if r is not None:
        return "segwit-" + r
    hrp, version, prog = segwit_addr_decode(addr)
    if version == 0 or (version == 1 and len(prog) == 32):
        return None
    return "witness-nonstandard"


def address_to_spk(addr):
    """(scriptPubKey bytes, tuple of networks the address belongs to) for the five standard templates, else None"""
    if address_reject_reason(addr) is not None:
        return None
    p = base58check_decode(addr)
    if p is not None:
        for kind_i, kind in ((0, "p2pkh"), (1, "p2sh")):
            nets = tuple(n for n in NETWORKS if B58_VERSIONS[n][kind_i] == p[0])
            if nets:
                return template_spk(kind, p[1:]), nets
    hrp, version, prog = segwit_addr_decode(addr)
    return witness_spk(version, prog), HRP_NETS[hrp]


# ------------------------------------------------------------------------------------------- WIF
SECP_N = 0xFFFFFFFFFFFFFFFFFFFFFFFFFFFFFFFEBAAEDCE6AF48A03BBFD25E8CD0364141


def wif_encode(secret, compressed, mainnet):
    return base58check_encode(bytes([0x80 if mainnet else 0xEF]) + secret.to_bytes(32, "big") + (b"\x01" if compressed else b""))


def wif_reject_reason(s):
    """None for a valid WIF string, else 'checksum' (not Base58Check), 'length' (payload not 33/34 bytes), 'version'
    (first byte not 0x80/0xef), 'flag' (34 bytes but last byte not 0x01), 'range' (secret 0 or >= group order)"""
    p = base58check_decode(s)
    if p is None:
        return "checksum"
    if len(p) not in (33, 34):
        return "length"
    if p[0] not in (0x80, 0xEF):
        return "version"
    if len(p) == 34 and p[33] != 1:
        return "flag"
    if not (1 <= int.from_bytes(p[1:33], "big") < SECP_N):
        return "range"
    return None


def wif_decode(s):
    """(secret, compressed, mainnet?) or None"""
    if wif_reject_reason(s) is not None:
        return None
    p = base58check_decode(s)
    return int.from_bytes(p[1:33], "big"), len(p) == 34, p[0] == 0x80


# ------------------------------------------------------------------------------------------- descriptor checksum
DESC_INPUT = ("0123456789()[],'/*abcdefgh@:$%{}"
              "IJKLMNOPQRSTUVWXYZ&+-.;<=>?!^_|~"
              "ijklmnopqrstuvwxyzABCDEFGH`#\"\\ ")


def descriptor_symbols(text):
    """the GF(32) symbol sequence Core feeds to the code: low 5 bits of each character's position, and after every
    third character (and after a final partial group) one symbol holding the base-3 number of their high parts;
    None when a character is outside the 95-character input set"""
    syms = []
    group = []
    for ch in text:
        pos = DESC_INPUT.find(ch)
        if pos < 0:
            return None
        syms.append(pos % 32)
        group.append(pos // 32)
        if len(group) == 3:
            syms.append(group[0] * 9 + group[1] * 3 + group[2])
            group = []
    if group:
        g = 0
        for x in group:
            g = g * 3 + x
        syms.append(g)
    return syms


def descriptor_polymod(symbols):
    return _pack(bch_remainder(symbols, DESC_GEN))


def descriptor_checksum(text):
    """8-character checksum of a descriptor body, or None for characters outside the input set"""
    syms = descriptor_symbols(text)
    if syms is None:
        return None
    c = descriptor_polymod(syms + [0] * 8) ^ 1
    return "".join(CHARSET[(c >> (5 * (7 - j))) & 31] for j in range(8))


def descriptor_verify(text_with_checksum):
    """Core's check: body '#' 8 checksum characters"""
    if text_with_checksum.count("#") != 1:
        return False
    body, _, chk = text_with_checksum.partition("#")
    return len(chk) == 8 and descriptor_checksum(body) == chk


# ------------------------------------------------------------------------------------------- CBOR byte strings
def cbor_bytes(data):
    """RFC 8949 preferred (shortest-head) encoding of a definite-length byte string (major type 2)"""
    n = len(data)
    if n < 24:
        return bytes([0x40 + n]) + data
    if n < 2**8:
        return b"\x58" + n.to_bytes(1, "big") + data
    if n < 2**16:
        return b"\x59" + n.to_bytes(2, "big") + data
    if n < 2**32:
        return b"\x5a" + n.to_bytes(4, "big") + data
    return b"\x5b" + n.to_bytes(8, "big") + data


def cbor_reject_reason(enc):
    """None when `enc` is exactly one well-formed definite-length CBOR byte-string item (RFC 8949), else:
    'empty', 'major-type' (initial byte not 0x40..0x5b), 'reserved' (additional info 28..31: reserved / indefinite),
    'head-truncated' (length field cut short), 'truncated' (fewer content bytes than declared), 'trailing' (more)"""
    if len(enc) < 1:
        return "empty"
    ib = enc[0]
    if ib >> 5 != 2:
        return "major-type"
    ai = ib & 31
    if ai < 24:
        n, off = ai, 1
    elif ai <= 27:
        w = 1 << (ai - 24)
        if len(enc) < 1 + w:
            return "head-truncated"
        n, off = int.from_bytes(enc[1:1 + w], "big"), 1 + w
    else:
        return "reserved"
    if len(enc) < off + n:
        return "truncated"
    if len(enc) > off + n:
        return "trailing"
    return None


def cbor_bytes_decode(enc):
    """payload of a well-formed single definite-length byte-string item that is exactly `enc`; None otherwise"""
    if cbor_reject_reason(enc) is not None:
        return None
    ai = enc[0] & 31
    return enc[1:] if ai < 24 else enc[1 + (1 << (ai - 24)):]


def cbor_head_len(n):
    return 1 if n < 24 else 2 if n < 256 else 3 if n < 65536 else 5 if n < 2**32 else 9


# ------------------------------------------------------------------------------------------- bc32 / UR
def bc32_encode(data):
    dd = regroup(data, 8, 5, True)
    pm = bech32_polymod([0] + dd + [0] * 6) ^ BC32_CONST
    return "".join(CHARSET[d] for d in dd + [(pm >> (5 * (5 - i))) & 31 for i in range(6)])


def bc32_reject_reason(s):
    """None for a valid bc32 string, else 'case' (mixed case), 'charset', 'short' (no room for the 6 checksum symbols),
    'checksum', 'padding' (5-bit groups do not regroup to whole bytes with zero padding)"""
    if not isinstance(s, str):
        return "charset"
    if s.lower() != s and s.upper() != s:
        return "case"
    vals = [CHARSET.find(c) for c in s.lower()]
    if any(v < 0 for v in vals):
        return "charset"
    if len(vals) < 6:
        return "short"
    if bech32_polymod([0] + vals) != BC32_CONST:
        return "checksum"
    if regroup(vals[:-6], 5, 8, False) is None:
        return "padding"
    return None


def bc32_decode(s):
    """bytes or None"""
    if bc32_reject_reason(s) is not None:
        return None
    return bytes(regroup([CHARSET.find(c) for c in s.lower()][:-6], 5, 8, False))


def ur_bytes_encode(payload):
    """(bc32 of the CBOR item, bc32 of its sha256) -- UR v0, type 'bytes'"""
    c = cbor_bytes(payload)
    return bc32_encode(c), bc32_encode(hashlib.sha256(c).digest())


def ur_bytes_decode(enc, digest=None):
    c = bc32_decode(enc)
    if c is None:
        return None
    if digest is not None:
        h = bc32_decode(digest)
        if h is None or h != hashlib.sha256(c).digest():
            return None
    return cbor_bytes_decode(c)


def ur_part(i, n, digest, piece):
    return "ur:bytes/%dof%d/%s/%s" % (i, n, digest, piece)


def ur_parts_problem(parts, enc, digest, max_size):
    """None when `parts` is a correct multi-part rendering of the bc32 string `enc` with digest string `digest` for
    a maximal piece size `max_size` >= 1; else a short description of what is wrong.  Required: the minimal number of
    parts n = ceil(len(enc) / max_size); part i (1-based) is 'ur:bytes/<i>of<n>/<digest>/<piece_i>'; no piece empty,
    none longer than max_size, the pieces concatenate to enc."""
    n = (len(enc) + max_size - 1) // max_size
    if len(parts) != n:
        return "%d parts, expected ceil(%d/%d) = %d" % (len(parts), len(enc), max_size, n)
    pieces = []
    for i, p in enumerate(parts):
        head = "ur:bytes/%dof%d/%s/" % (i + 1, n, digest)
        if not p.startswith(head):
            return "part %d does not start with %r" % (i + 1, head)
        piece = p[len(head):]
        if piece == "":
            return "part %d is empty" % (i + 1)
        if len(piece) > max_size:
            return "part %d longer than max_size" % (i + 1)
        pieces.append(piece)
    if "".join(pieces) != enc:
        return "pieces do not concatenate to the encoding"
    return None


def ur_part_fields(part):
    """(i, n, digest, piece) of a multi-part string 'ur:bytes/<i>of<n>/<digest>/<piece>' (case-insensitive), or None"""
    if not isinstance(part, str):
        return None
    f = part.strip().lower().split("/")
    if len(f) != 4 or f[0] != "ur:bytes":
        return None
    xy = f[1].split("of")
    if len(xy) != 2 or not (xy[0].isdigit() and xy[1].isdigit()) or not (xy[0].isascii() and xy[1].isascii()):
        return None
    return int(xy[0]), int(xy[1]), f[2], f[3]


def ur_parts_payload(parts):
    """strict reassembly per bcr-2020-005: payload when `parts` is the complete ordered set 1..n of n parts, all with
    the same 58-character digest, whose pieces concatenate to a valid bc32 string of a well-formed CBOR byte string
    whose sha256 is that digest; None otherwise"""
    fs = [ur_part_fields(p) for p in parts]
    if not fs or any(f is None for f in fs):
        return None
    n = fs[0][1]
    if len(fs) != n or any(f[1] != n or f[2] != fs[0][2] for f in fs):
        return None
    if [f[0] for f in fs] != list(range(1, n + 1)):
        return None
    return ur_bytes_decode("".join(f[3] for f in fs), fs[0][2])


# ------------------------------------------------------------------------------------------- secp256k1 / BIP32 public derivation / wsh(sortedmulti)
# SEC 2 curve parameters, BIP32 "Public parent key -> public child key", SLIP-132 version bytes, BIP67 key order,
# BIP141 P2WSH, Bitcoin Core doc/descriptors.md text form.  Affine arithmetic, no optimisation: it is the oracle.
import hmac as _hmac

SECP_P = 2**256 - 2**32 - 977
SECP_G = (0x79BE667EF9DCBBAC55A06295CE870B07029BFCDB2DCE28D959F2815B16F81798,
          0x483ADA7726A3C4655DA4FBFC0E1108A8FD17B448A68554199C47D08FFB10D4B8)


def ec_add(a, b):
    """group law on y^2 = x^3 + 7 over F_p, None = point at infinity"""
    if a is None:
        return b
    if b is None:
        return a
    if a[0] == b[0]:
        if (a[1] + b[1]) % SECP_P == 0:
            return None
        lam = 3 * a[0] * a[0] * pow(2 * a[1], -1, SECP_P) % SECP_P
    else:
        lam = (b[1] - a[1]) * pow(b[0] - a[0], -1, SECP_P) % SECP_P
    x = (lam * lam - a[0] - b[0]) % SECP_P
    return x, (lam * (a[0] - x) - a[1]) % SECP_P


def ec_mul(k, pt):
    acc = None
    while k > 0:
        if k & 1:
            acc = ec_add(acc, pt)
        pt = ec_add(pt, pt)
        k >>= 1
    return acc


def sec33(pt):
    return bytes([2 + (pt[1] & 1)]) + pt[0].to_bytes(32, "big")


def sec33_point(b):
    """point of a 33-byte compressed encoding, None if not on the curve / wrong prefix"""
    if len(b) != 33 or b[0] not in (2, 3):
        return None
    x = int.from_bytes(b[1:], "big")
    if x >= SECP_P:
        return None
    y2 = (x * x * x + 7) % SECP_P
    y = pow(y2, (SECP_P + 1) // 4, SECP_P)
    if y * y % SECP_P != y2:
        return None
    if (y & 1) != (b[0] & 1):
        y = SECP_P - y
    return x, y


def ckd_pub(pub33, chain, index):
    """BIP32 CKDpub for a non-hardened index: (child compressed key, child chain code); None when the BIP says
    'invalid, proceed with the next index'"""
    if not (0 <= index < 2**31):
        return None
    i64 = _hmac.new(chain, pub33 + index.to_bytes(4, "big"), hashlib.sha512).digest()
    il = int.from_bytes(i64[:32], "big")
    if il >= SECP_N:
        return None
    child = ec_add(ec_mul(il, SECP_G), sec33_point(pub33))
    if child is None:
        return None
    return sec33(child), i64[32:]


XPUB_VERSIONS = {   # SLIP-132: version bytes -> network of the *public* extended key prefixes
    "0488b21e": "mainnet", "049d7cb2": "mainnet", "04b24746": "mainnet", "0295b43f": "mainnet", "02aa7ed3": "mainnet",
    "043587cf": "testnet", "044a5262": "testnet", "045f1cf6": "testnet", "024289ef": "testnet", "02575483": "testnet"}
XPUB_STANDARD = {"mainnet": "0488b21e", "testnet": "043587cf"}


def xpub_encode(version_hex, depth, parent_fp, child_number, chain, pub33):
    return base58check_encode(bytes.fromhex(version_hex) + bytes([depth]) + parent_fp + child_number.to_bytes(4, "big") + chain + pub33)


def xpub_decode(s):
    """(version_hex, depth, parent_fp, child_number, chain, pub33) or None"""
    raw = base58check_decode(s)
    if raw is None or len(raw) != 78 or raw[:4].hex() not in XPUB_VERSIONS or sec33_point(raw[45:]) is None:
        return None
    return raw[:4].hex(), raw[4], raw[5:9], int.from_bytes(raw[9:13], "big"), raw[13:45], raw[45:]


def xpub_standardise(s):
    """same key with the BIP32 version bytes of its network (SLIP-132 prefix removed)"""
    d = xpub_decode(s)
    return xpub_encode(XPUB_STANDARD[XPUB_VERSIONS[d[0]]], d[1], d[2], d[3], d[4], d[5])


def multisig_witness_script(m, pubkeys):
    """OP_m <keys in the given order> OP_n OP_CHECKMULTISIG, 33-byte keys, 1 <= m <= n <= 16"""
    return bytes([0x50 + m]) + b"".join(b"\x21" + k for k in pubkeys) + bytes([0x50 + len(pubkeys), 0xAE])


def sortedmulti_address(m, keys, branch_offset, index, network):
    """address of wsh(sortedmulti(m, xpub_i/(account_i + branch_offset)/index ...)):
    keys = [(xpub string, account index)], BIP67 = lexicographic order of the compressed CHILD keys"""
    leaf = []
    for xpub, account in keys:
        d = xpub_decode(xpub)
        a = ckd_pub(d[5], d[4], account + branch_offset)
        b = ckd_pub(a[0], a[1], index)
        leaf.append(b[0])
    ws = multisig_witness_script(m, sorted(leaf))
    return segwit_addr_encode(SEGWIT_HRP[network], 0, hashlib.sha256(ws).digest())


def sortedmulti_text(m, records, sort=True):
    """descriptor body: records = [(xfp_hex, path 'm/..', xpub, account_index)], xpubs written with standard version
    bytes; with sort=True the key expressions are ordered by that xpub text (the library's documented normal form)"""
    recs = [(xfp, path, xpub_standardise(x), idx) for xfp, path, x, idx in records]
    if sort:
        recs = sorted(recs, key=lambda r: r[2])
    return "wsh(sortedmulti(%d,%s))" % (m, ",".join("[%s%s]%s/%d/*" % (xfp, path[1:], x, idx) for xfp, path, x, idx in recs))


def sortedmulti_descriptor(m, records, sort=True):
    t = sortedmulti_text(m, records, sort)
    return t + "#" + descriptor_checksum(t)


# ------------------------------------------------------------------------------------------- self test
def _selftest():
    # GEN constants of BIP173 / Core are the packed multiples {2^i} * g(x): ties this file to the published constants
    bip173_gen = [0x3B6A57B2, 0x26508E6D, 0x1EA119FA, 0x3D4233DD, 0x2A1462B3]
    for i in range(5):
        assert _pack([gf32_mul(1 << i, c) for c in BECH32_GEN]) == bip173_gen[i]
    core_gen = [0xF5DEE51989, 0xA9FDCA3312, 0x1BAB10E32D, 0x3706B1677A, 0x644D626FFD]
    for i in range(5):
        assert _pack([gf32_mul(1 << i, c) for c in DESC_GEN]) == core_gen[i]
    # BIP173 / BIP350 valid strings
    for s in ["A12UEL5L", "a12uel5l", "an83characterlonghumanreadablepartthatcontainsthenumber1andtheexcludedcharactersbio1tt5tgs",
              "abcdef1qpzry9x8gf2tvdw0s3jn54khce6mua7lmqqqxw", "split1checkupstagehandshakeupstreamerranterredcaperred2y9e3w",
              "11qqqqqqqqqqqqqqqqqqqqqqqqqqqqqqqqqqqqqqqqqqqqqqqqqqqqqqqqqqqqqqqqqqqqqqqqqqqqqqqqqqc8247j"]:
        d = bech32_decode(s)
        assert d is not None and d[2] == BECH32_CONST, s
    for s in ["A1LQFN3A", "a1lqfn3a", "abcdef1l7aum6echk45nj3s0wdvt2fg8x9yrzpqzd3ryx", "split1checkupstagehandshakeupstreamerranterredcaperredlc445v",
              "?1v759aa", "11llllllllllllllllllllllllllllllllllllllllllllllllllllllllllllllllllllllllllllllllllludsr8"]:
        d = bech32_decode(s)
        assert d is not None and d[2] == BECH32M_CONST, s
    for s in ["\x201nwldj5", "\x7f1axkwrx", "an84characterslonghumanreadablepartthatcontainsthenumber1andtheexcludedcharactersbio1569pvx",
              "pzry9x0s0muk", "1pzry9x0s0muk", "x1b4n0q5v", "li1dgmt3", "A1G7SGD8", "10a06t8", "1qzzfhee", "qyrz8wqd2c9m",
              "y1b0jsk6g", "lt1igcx5c", "mm1crxm3i", "au1s5cgom", "16plkw9", "1p2gdwpf"]:
        assert bech32_decode(s) is None, s
    valid = [("BC1QW508D6QEJXTDG4Y5R3ZARVARY0C5XW7KV8F3T4", "0014751e76e8199196d454941c45d1b3a323f1433bd6"),
             ("tb1qrp33g0q5c5txsp9arysrx4k6zdkfs4nce4xj0gdcccefvpysxf3q0sl5k7", "00201863143c14c5166804bd19203356da136c985678cd4d27a1b8c6329604903262"),
             ("bc1pw508d6qejxtdg4y5r3zarvary0c5xw7kw508d6qejxtdg4y5r3zarvary0c5xw7kt5nd6y", "5128751e76e8199196d454941c45d1b3a323f1433bd6751e76e8199196d454941c45d1b3a323f1433bd6"),
             ("BC1SW50QGDZ25J", "6002751e"), ("bc1zw508d6qejxtdg4y5r3zarvaryvaxxpcs", "5210751e76e8199196d454941c45d1b3a323"),
             ("tb1qqqqqp399et2xygdj5xreqhjjvcmzhxw4aywxecjdzew6hylgvsesrxh6hy", "0020000000c4a5cad46221b2a187905e5266362b99d5e91c6ce24d165dab93e86433"),
             ("tb1pqqqqp399et2xygdj5xreqhjjvcmzhxw4aywxecjdzew6hylgvsesf3hn0c", "5120000000c4a5cad46221b2a187905e5266362b99d5e91c6ce24d165dab93e86433"),
             ("bc1p0xlxvlhemja6c4dqv22uapctqupfhlxm9h8z3k2e72q4k9hcz7vqzk5jj0", "512079be667ef9dcbbac55a06295ce870b07029bfcdb2dce28d959f2815b16f81798")]
    for a, spk in valid:
        d = segwit_addr_decode(a)
        assert d is not None and witness_spk(d[1], d[2]).hex() == spk, a
        assert segwit_addr_encode(d[0], d[1], d[2]) == a.lower()
    for a in ["tc1qw508d6qejxtdg4y5r3zarvary0c5xw7kg3g4ty", "bc1p0xlxvlhemja6c4dqv22uapctqupfhlxm9h8z3k2e72q4k9hcz7vqh2y7hd",
              "tb1z0xlxvlhemja6c4dqv22uapctqupfhlxm9h8z3k2e72q4k9hcz7vqglt7rf", "BC1S0XLXVLHEMJA6C4DQV22UAPCTQUPFHLXM9H8Z3K2E72Q4K9HCZ7VQ54WELL",
              "bc1qw508d6qejxtdg4y5r3zarvary0c5xw7kemeawh", "tb1q0xlxvlhemja6c4dqv22uapctqupfhlxm9h8z3k2e72q4k9hcz7vq24jc47",
              "bc1p38j9r5y49hruaue7wxjce0updqjuyyx0kh56v8s25huc6995vvpql3jow4", "BC130XLXVLHEMJA6C4DQV22UAPCTQUPFHLXM9H8Z3K2E72Q4K9HCZ7VQ7ZWS8R",
              "bc1pw5dgrnzv", "bc1p0xlxvlhemja6c4dqv22uapctqupfhlxm9h8z3k2e72q4k9hcz7v8n0nx0muaewav253zgeav",
              "BC1QR508D6QEJXTDG4Y5R3ZARVARYV98GJ9P", "tb1p0xlxvlhemja6c4dqv22uapctqupfhlxm9h8z3k2e72q4k9hcz7vq47Zagq",
              "bc1p0xlxvlhemja6c4dqv22uapctqupfhlxm9h8z3k2e72q4k9hcz7v07qwwzcrf", "tb1p0xlxvlhemja6c4dqv22uapctqupfhlxm9h8z3k2e72q4k9hcz7vpggkg4j",
              "bc1gmk9yu", "BC13W508D6QEJXTDG4Y5R3ZARVARY0C5XW7KN40WF2", "bc1rw5uspcuh", "bc1zw508d6qejxtdg4y5r3zarvaryvqyzf3du",
              "tb1qrp33g0q5c5txsp9arysrx4k6zdkfs4nce4xj0gdcccefvpysxf3pjxtptv",
              "bc10w508d6qejxtdg4y5r3zarvary0c5xw7kw508d6qejxtdg4y5r3zarvary0c5xw7kw5rljs90"]:
        assert segwit_addr_decode(a) is None, a
    # Base58Check / WIF (bitcoin wiki examples)
    assert base58check_encode(bytes.fromhex("00f54a5851e9372b87810a8e60cdd2e7cfd80b6e31")) == "1PMycacnJaSqwwJqjawXBErnLsZ7RkXUAs"
    assert base58check_decode("1PMycacnJaSqwwJqjawXBErnLsZ7RkXUAs").hex() == "00f54a5851e9372b87810a8e60cdd2e7cfd80b6e31"
    assert base58check_encode(bytes(21)) == "1111111111111111111114oLvT2"
    k = 0x0C28FCA386C7A227600B2FE50B7CAE11EC86D3BF1FBE471BE89827E19D72AA1D
    assert wif_encode(k, False, True) == "5HueCGU8rMjxEXxiPuD5BDku4MkFqeZyd4dZ1jvhTVqvbTLvyTJ"
    assert wif_encode(k, True, True) == "KwdMAjGmerYanjeui5SHS7JkmpZvVipYvB2LJGU1ZxJwYvP98617"
    assert wif_decode("5HueCGU8rMjxEXxiPuD5BDku4MkFqeZyd4dZ1jvhTVqvbTLvyTJ") == (k, False, True)
    assert base58_encode(b"") == "" and base58_decode("") == b""
    # descriptor checksums (Bitcoin Core doc/descriptors.md and functional tests)
    assert descriptor_checksum("wpkh(02f9308a019258c31049344f85f89d5229b531c845836f99b08601f113bce036f9)") == "8zl0zxma"
    assert descriptor_checksum("pkh(02c6047f9441ed7d6d3045406e95c07cd85c778e4b8cef3ca7abac09b95c709ee5)") == "8fhd9pwu"
    assert descriptor_checksum("sh(wsh(sortedmulti(2,029dfee2aaa23e2220476c34eda9a76591c1257f8dfce54e42ff014f922ede0838,03151d5b21c6491915e7a103bff913b4d85246c8209a342bb7104850e4cb394686,03646d8e624fedb63739e7963d0c7ad368a7f7935557b2b28c4c954882b19fe6e1)))") == "rzmdthwy"
    # bc32 (bcr-2020-004 test vector) and UR (bcr-2020-005)
    assert bc32_encode(b"Hello world") == "fpjkcmr0ypmk7unvvsh4ra4j"
    assert bc32_decode("fpjkcmr0ypmk7unvvsh4ra4j") == b"Hello world"
    assert cbor_bytes(b"\x01\x02\x03").hex() == "43010203" and cbor_bytes(bytes(24))[:2].hex() == "5818"
    assert cbor_bytes(bytes(65536))[:5].hex() == "5a00010000"
    for n in (0, 1, 23, 24, 255, 256, 65535, 65536):
        assert cbor_bytes_decode(cbor_bytes(bytes(n))) == bytes(n)
    # BIP32 test vector 2: chain m -> m/0 (public derivation)
    m2 = xpub_decode("xpub661MyMwAqRbcFW31YEwpkMuc5THy2PSt5bDMsktWQcFF8syAmRUapSCGu8ED9W6oDMSgv6Zz8idoc4a6mr8BDzTJY47LJhkJ8UB7WEGuduB")
    c0 = ckd_pub(m2[5], m2[4], 0)
    assert xpub_encode("0488b21e", 1, hashlib.new("ripemd160", hashlib.sha256(m2[5]).digest()).digest()[:4], 0, c0[1], c0[0]) == \
        "xpub69H7F5d8KSRgmmdJg2KhpAK8SR3DjMwAdkxj3ZuxV27CprR9LgpeyGmXUbC6wb7ERfvrnKZjXoUmmDznezpbZb7ap6r1D3tgFxHmwMkQTPH"
    assert sec33(ec_mul(1, SECP_G)).hex() == "0279be667ef9dcbbac55a06295ce870b07029bfcdb2dce28d959f2815b16f81798"
    assert ec_mul(SECP_N, SECP_G) is None
    return True


if __name__ == "__main__":
    print(_selftest())
