"""spec functions: every module of this directory is available as spec.<module>.<fn>;
wire.py is additionally exported flat (spec.compact_size, ...)"""
import importlib
import os
import pkgutil

from .wire import *  # noqa

for _m in sorted(pkgutil.iter_modules([os.path.dirname(__file__)]), key=lambda m: m.name):
    globals()[_m.name] = importlib.import_module(__name__ + "." + _m.name)
