from .wire import *  # noqa
from . import wire  # noqa
