"""BIP341 / BIP342 commitments and the MuSig construction, written independently of the repository.

Part 1 (C12) follows the text of BIP341 ("Script validation rules", "Constructing and spending
Taproot outputs").  Points come from verif.specs.curve, tagged hashes from verif.specs.schnorr.

Part 2 (C13) DESCRIBES the two-round multi-signature the repository implements (an early MuSig2
draft over x-only keys: "KeyAgg list" / "KeyAgg coefficient" / "MuSig/noncecoef" tagged hashes,
second key of the sorted list with coefficient 1).  It is a description, not a judge: whether an
aggregate signature is valid is decided only by spec.schnorr.verify.

A script tree is a nested tuple: a leaf is (leaf_version:int, script:bytes), a branch is
(left_tree, right_tree)."""
from . import curve, schnorr

N = curve.N
P = curve.P
GX32 = curve.GX.to_bytes(32, "big")


# ------------------------------------------------------------------------------------------------
# Part 1: BIP341
# ------------------------------------------------------------------------------------------------
def compact_size(n):
    if n < 0xFD:
        return n.to_bytes(1, "little")
    if n <= 0xFFFF:
        return b"\xfd" + n.to_bytes(2, "little")
    if n <= 0xFFFFFFFF:
        return b"\xfe" + n.to_bytes(4, "little")
    return b"\xff" + n.to_bytes(8, "little")


def tapleaf_hash(leaf_version, script):
    """k0 = hash_TapLeaf(v || compact_size(size of s) || s)"""
    return schnorr.tagged(b"TapLeaf", leaf_version.to_bytes(1, "big") + compact_size(len(script)) + script)


def tapbranch_hash(a, b):
    """hash_TapBranch of the two 32-byte children in lexicographic order"""
    if a < b:
        return schnorr.tagged(b"TapBranch", a + b)
    return schnorr.tagged(b"TapBranch", b + a)


def merkle_root_from_path(leaf_hash, path):
    k = leaf_hash
    for e in path:
        k = tapbranch_hash(k, e)
    return k


def path0(k):
    return merkle_root_from_path(k, [])


def path1(k, h0):
    return merkle_root_from_path(k, [h0])


def path2(k, h0, h1):
    return merkle_root_from_path(k, [h0, h1])


def path3(k, h0, h1, h2):
    return merkle_root_from_path(k, [h0, h1, h2])


def x32(p):
    """32-byte x-only serialization of a finite point"""
    return curve.x_of(p).to_bytes(32, "big")


def parity(p):
    return 0 if curve.has_even_y(p) else 1


def even(p):
    """the point with the same x and even y (lift_x(x(P)))"""
    if curve.has_even_y(p):
        return p
    return curve.mul(N - 1, p)


def taptweak(internal_x32, merkle_root):
    """t = int(hash_TapTweak(p || k_m)); merkle_root == b"" when there is no script tree"""
    return schnorr.be(schnorr.tagged(b"TapTweak", internal_x32 + merkle_root))


def tweak_pub(p, t):
    """taproot_tweak_pubkey without the range check: Q = lift_x(x(P)) + t*G"""
    return curve.add(even(p), curve.mul_G(t))


def tweak_defined(p, merkle_root):
    """A-NEGL: BIP341 fails for t >= n and for Q at infinity (probability about 2^-128)"""
    t = taptweak(x32(p), merkle_root)
    if t >= N:
        return False
    return not curve.is_inf(tweak_pub(p, t))


def output_key(p, merkle_root):
    """Q for internal key P and Merkle root (b"" = key path only)"""
    return tweak_pub(p, taptweak(x32(p), merkle_root))


def even_secret(d):
    return d if curve.has_even_y(curve.mul_G(d)) else N - d


def tweak_priv(d, t):
    """taproot_tweak_seckey: (d' + t) mod n with d' the secret of the even-y key"""
    return (even_secret(d) + t) % N


def tweaked_secret(d, merkle_root):
    return tweak_priv(d, taptweak(x32(curve.mul_G(d)), merkle_root))


def control_block_ser(leaf_version, q_parity, internal_x32, path):
    """c = (leaf_version | parity bit) || p || e_0 || ... || e_{m-1}"""
    # first byte: the leaf version with its lowest bit replaced by the parity bit of Q
    first = leaf_version - leaf_version % 2 + q_parity % 2
    out = first.to_bytes(1, "big") + internal_x32
    for e in path:
        out = out + e
    return out


def control_block_len_ok(n):
    return n >= 33 and n <= 33 + 32 * 128 and (n - 33) % 32 == 0


def push_script(data, op):
    """raw script `<data> op` for 1..75 bytes of data (direct push)"""
    return len(data).to_bytes(1, "big") + data + op.to_bytes(1, "big")


def is_leaf(tree):
    return isinstance(tree[0], int)


def tree_hash(tree):
    if is_leaf(tree):
        return tapleaf_hash(tree[0], tree[1])
    return tapbranch_hash(tree_hash(tree[0]), tree_hash(tree[1]))


def leaf_paths(tree):
    """[(leaf_version, script, [sibling hashes from the leaf upwards])] in left-to-right order"""
    if is_leaf(tree):
        return [(tree[0], tree[1], [])]
    hl = tree_hash(tree[0])
    hr = tree_hash(tree[1])
    out = []
    for (v, s, path) in leaf_paths(tree[0]):
        out.append((v, s, path + [hr]))
    for (v, s, path) in leaf_paths(tree[1]):
        out.append((v, s, path + [hl]))
    return out


def script_path_commits(q_x32, control_block, script):
    """BIP341 script path rule for output key bytes q: the control block and script commit to q"""
    if len(q_x32) != 32 or not control_block_len_ok(len(control_block)):
        return False
    p = control_block[1:33]
    pt = curve.lift_x(schnorr.be(p))
    if pt is None:
        return False
    m = (len(control_block) - 33) // 32
    k = tapleaf_hash(control_block[0] & 0xFE, script)
    for j in range(m):
        k = tapbranch_hash(k, control_block[33 + 32 * j:65 + 32 * j])
    t = taptweak(p, k)
    if t >= N:
        return False
    q = curve.add(pt, curve.mul_G(t))
    if curve.is_inf(q):
        return False
    return x32(q) == q_x32 and (control_block[0] & 1) == parity(q)


# ------------------------------------------------------------------------------------------------
# Part 2: the multi-signature scheme of buidl/taproot.py, described
# ------------------------------------------------------------------------------------------------
def sec33(p):
    return (b"\x02" if curve.has_even_y(p) else b"\x03") + x32(p)


def musig_coefs(xs):
    """key aggregation coefficients for the SORTED list xs of x-only keys: a_i = int(H_coef(L || x_i))
    with L = H_list(x_1 || ... || x_u); the second key of the list has coefficient 1"""
    joined = b""
    for x in xs:
        joined = joined + x
    big_l = schnorr.tagged(b"KeyAgg list", joined)
    out = []
    for i in range(len(xs)):
        if i == 1:
            out.append(1)
        else:
            out.append(schnorr.be(schnorr.tagged(b"KeyAgg coefficient", big_l + xs[i])))
    return out


def musig_agg_point(xs):
    """sum of a_i * lift_x(x_i) over the sorted x-only keys"""
    cs = musig_coefs(xs)
    acc = None
    for i in range(len(xs)):
        acc = curve.add(acc, curve.mul(cs[i], curve.lift_x(schnorr.be(xs[i]))))
    return acc


def xs_of_secrets(ds):
    return sorted([x32(curve.mul_G(d)) for d in ds])


def musig_keys_distinct(ds):
    """the participants form a SET of keys: pairwise different x-only public keys"""
    xs = xs_of_secrets(ds)
    for i in range(len(xs) - 1):
        if xs[i] == xs[i + 1]:
            return False
    return True


def musig_agg_of_secrets(ds):
    return musig_agg_point(xs_of_secrets(ds))


def sum_points(ps):
    acc = None
    for p in ps:
        acc = curve.add(acc, p)
    return acc


def musig_nonce_coef(r1, r2, agg, msg):
    return schnorr.be(schnorr.tagged(b"MuSig/noncecoef", sec33(r1) + sec33(r2) + x32(agg) + msg))


def musig_session_key(ds, merkle_root):
    """the BIP340 public key the aggregate signature is for: even(agg) without a Merkle root,
    the taproot output key of agg otherwise"""
    agg = musig_agg_of_secrets(ds)
    if len(merkle_root) == 0:
        return even(agg)
    return output_key(agg, merkle_root)


def musig_defined(ds, ks, msg, merkle_root):
    """A-NEGL for a signing session with secrets ds, nonce pairs ks = [(k1, k2)], message, root:
    distinct keys; aggregate key, both nonce sums and the final nonce are finite; with a Merkle
    root the tweak is in range and the output key is finite."""
    xs = xs_of_secrets(ds)
    for i in range(len(xs) - 1):
        if xs[i] == xs[i + 1]:
            return False
    agg = musig_agg_point(xs)
    if curve.is_inf(agg):
        return False
    r1 = curve.mul_G(sum([k[0] for k in ks]))
    r2 = curve.mul_G(sum([k[1] for k in ks]))
    if curve.is_inf(r1) or curve.is_inf(r2):
        return False
    b = musig_nonce_coef(r1, r2, agg, msg)
    if curve.is_inf(curve.add(r1, curve.mul(b, r2))):
        return False
    if len(merkle_root) != 0:
        return tweak_defined(agg, merkle_root)
    return True


def musig_defined_cancelling(ds, ks, msg, merkle_root):
    """a session in which exactly ONE of the two nonce sums is the point at infinity (the participants' nonce secrets of
    that slot cancel mod n -- constructible at will, every single nonce is in [1, n-1]): the scheme is still defined, the
    final nonce R = R1 + b*R2 is the finite one of b*R2 / R1 (b = 0 is a hash event, A-NEGL); otherwise as musig_defined"""
    xs = xs_of_secrets(ds)
    for i in range(len(xs) - 1):
        if xs[i] == xs[i + 1]:
            return False
    agg = musig_agg_point(xs)
    if curve.is_inf(agg):
        return False
    r1 = curve.mul_G(sum([k[0] for k in ks]))
    r2 = curve.mul_G(sum([k[1] for k in ks]))
    if curve.is_inf(r1) == curve.is_inf(r2):
        return False
    if len(merkle_root) != 0:
        return tweak_defined(agg, merkle_root)
    return True


def musig_agg_sorted_secrets(ds):
    """aggregate point for secrets LISTED IN INCREASING ORDER of their x-only keys (lift_x(x(dG)) is even(dG))"""
    xs = [x32(curve.mul_G(d)) for d in ds]
    cs = musig_coefs(xs)
    acc = None
    for i in range(len(ds)):
        acc = curve.add(acc, curve.mul(cs[i], even(curve.mul_G(ds[i]))))
    return acc


def musig_defined_sorted(ds, ks, msg, merkle_root):
    """musig_defined for secrets listed in strictly increasing order of their x-only keys (one case of the sort)"""
    xs = [x32(curve.mul_G(d)) for d in ds]
    for i in range(len(xs) - 1):
        if not xs[i] < xs[i + 1]:
            return False
    agg = musig_agg_sorted_secrets(ds)
    if curve.is_inf(agg):
        return False
    r1 = curve.mul_G(sum([k[0] for k in ks]))
    r2 = curve.mul_G(sum([k[1] for k in ks]))
    if curve.is_inf(r1) or curve.is_inf(r2):
        return False
    b = musig_nonce_coef(r1, r2, agg, msg)
    if curve.is_inf(curve.add(r1, curve.mul(b, r2))):
        return False
    if len(merkle_root) != 0:
        return tweak_defined(agg, merkle_root)
    return True


def musig_session_key_sorted(ds, merkle_root):
    agg = musig_agg_sorted_secrets(ds)
    if len(merkle_root) == 0:
        return even(agg)
    return output_key(agg, merkle_root)


def musig_sign(ds, ks, msg, merkle_root):
    """the 64-byte signature the described scheme yields (secrets ds, nonce pairs ks)"""
    xs = xs_of_secrets(ds)
    cs = musig_coefs(xs)
    agg = musig_agg_point(xs)
    r1 = curve.mul_G(sum([k[0] for k in ks]))
    r2 = curve.mul_G(sum([k[1] for k in ks]))
    b = musig_nonce_coef(r1, r2, agg, msg)
    r = curve.add(r1, curve.mul(b, r2))
    q = musig_session_key(ds, merkle_root)
    e = schnorr.be(schnorr.tagged(b"BIP0340/challenge", x32(r) + x32(q) + msg)) % N
    # secret of even(agg): sum a_i * (secret of lift_x(x_i)), negated when agg has odd y
    dsum = 0
    for d in ds:
        xi = x32(curve.mul_G(d))
        for i in range(len(xs)):
            if xs[i] == xi:
                dsum = dsum + cs[i] * even_secret(d)
    if not curve.has_even_y(agg):
        dsum = N - dsum % N
    if len(merkle_root) != 0:
        dsum = dsum + taptweak(x32(agg), merkle_root)
        if not curve.has_even_y(q):
            dsum = N - dsum % N
    k = 0
    for kk in ks:
        k = k + kk[0] + b * kk[1]
    if not curve.has_even_y(r):
        k = N - k % N
    return x32(r) + ((k + e * dsum) % N).to_bytes(32, "big")


# ------------------------------------------------------------------------------------------------
# k-of-n script trees (BIP342 CHECKSIGADD template)
# ------------------------------------------------------------------------------------------------
def push32(x):
    return b"\x20" + x


def checksigadd_script(xs, k):
    """<x_1> CHECKSIG <x_2> CHECKSIGADD ... <x_n> CHECKSIGADD <k> EQUAL for sorted x-only keys;
    a single key is <x_1> CHECKSIG"""
    xs = sorted(xs)
    out = push32(xs[0]) + b"\xac"
    if len(xs) > 1:
        for x in xs[1:]:
            out = out + push32(x) + b"\xba"
        out = out + (0x50 + k).to_bytes(1, "big") + b"\x87"
    return out


def k_subsets(n, k):
    """all k-element index subsets of range(n) in lexicographic order (own enumeration)"""
    out = []

    def rec(start, chosen):
        if len(chosen) == k:
            out.append(tuple(chosen))
            return
        for i in range(start, n):
            rec(i + 1, chosen + [i])
    rec(0, [])
    return out
