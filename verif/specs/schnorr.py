"""BIP340 Schnorr signatures: the reference algorithms of the BIP, written independently of
the repository.  Points come from verif.specs.curve."""
import hashlib

from . import curve

N = curve.N
P = curve.P


def tagged(tag, msg):
    h = hashlib.sha256(tag).digest()
    return hashlib.sha256(h + h + msg).digest()


def xor32(a, b):
    return bytes(x ^ y for x, y in zip(a, b))


def be(b):
    return int.from_bytes(b, "big")


def even_secret(d0):
    """d of BIP340 signing: the secret whose public key has even y"""
    p = curve.mul_G(d0)
    return d0 if curve.has_even_y(p) else N - d0


def nonce(d0, m, a):
    """k' of BIP340 signing (before the even-y flip)"""
    p = curve.mul_G(d0)
    d = even_secret(d0)
    t = xor32(d.to_bytes(32, "big"), tagged(b"BIP0340/aux", a))
    rand = tagged(b"BIP0340/nonce", t + curve.x_of(p).to_bytes(32, "big") + m)
    return be(rand) % N


def sign_defined(d0, m, a):
    """A-NEGL: the BIP's 'fail if k' = 0' case does not occur"""
    return nonce(d0, m, a) != 0


def sign(d0, m, a):
    """64-byte signature of 32-byte message m with secret 1 <= d0 < n and 32-byte aux randomness a"""
    p = curve.mul_G(d0)
    d = even_secret(d0)
    k0 = nonce(d0, m, a)
    r = curve.mul_G(k0)
    k = k0 if curve.has_even_y(r) else N - k0
    rx = curve.x_of(r).to_bytes(32, "big")
    e = be(tagged(b"BIP0340/challenge", rx + curve.x_of(p).to_bytes(32, "big") + m)) % N
    return rx + ((k + e * d) % N).to_bytes(32, "big")


def verify(pk, m, sig):
    """BIP340 Verify(pk, m, sig): pk 32 bytes, sig 64 bytes"""
    if len(pk) != 32 or len(sig) != 64:
        return False
    pt = curve.lift_x(be(pk))
    if pt is None:
        return False
    r = be(sig[:32])
    s = be(sig[32:])
    if r >= P or s >= N:
        return False
    e = be(tagged(b"BIP0340/challenge", sig[:32] + pk + m)) % N
    rr = curve.add(curve.mul_G(s), curve.mul(N - e, pt))
    if curve.is_inf(rr):
        return False
    if not curve.has_even_y(rr):
        return False
    return curve.x_of(rr) == r
