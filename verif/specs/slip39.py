"""SLIP-0039 (Shamir's secret sharing for mnemonic codes), written from the specification text;
independent of /repo (no tables, nothing imported from buidl).

Format of a share mnemonic (word = 10 bits, big-endian concatenation):
  id 15 | iteration exponent e 5 | group index GI 4 | group threshold GT-1 4 | group count G-1 4 |
  member index I 4 | member threshold T-1 4 | padded share value 8n+pad | checksum 30
  (the version of the format implemented by the repository: 5-bit exponent, no 'extendable' flag; it
  coincides with the current SLIP-39 text for ext = 0 and e < 16)
  padding: the share value is left-padded with 0 bits to the nearest multiple of 10; a mnemonic whose
  padding is longer than 8 bits or not all-zero is invalid; a mnemonic has at least 20 words.
Checksum: RS1024, Reed-Solomon code over GF(1024), customisation string "shamir".
Secret sharing over GF(256) (Rijndael polynomial x^8+x^4+x^3+x+1), shares at x = member index 0..15,
  digest D = HMAC-SHA256(key R, msg S)[:4] || R at x = 254, secret S at x = 255.
Encryption: 4-round Feistel, F(i, R) = PBKDF2(PRF = HMAC-SHA256, Password = (i || passphrase),
  Salt = ("shamir" || id || R), iterations = 2500 << e, dkLen = n/2 bytes); output R || L.
"""
import hashlib
import hmac

from . import mnemonic as _m

# --------------------------------------------------------------------------- GF(256)
RIJNDAEL = 0x11B
from ._rec import recursive


def clmul(a, b):
    """carry-less product of two non-negative integers"""
    r = 0
    while b:
        if b & 1:
            r ^= a
        a <<= 1
        b >>= 1
    return r


def polymod2(v, m):
    """remainder of the GF(2)[x] polynomial v modulo m"""
    dm = m.bit_length()
    while v.bit_length() >= dm:
        v ^= m << (v.bit_length() - dm)
    return v


def gf256_mul(a, b):
    return polymod2(clmul(a, b), RIJNDAEL)


def gf256_pow(a, e):
    r = 1
    for _ in range(e):
        r = gf256_mul(r, a)
    return r


def gf256_inv(a):
    """a^254 (a != 0)"""
    if a == 0:
        raise ZeroDivisionError("0 has no inverse in GF(256)")
    return gf256_pow(a, 254)


def gf256_div(a, b):
    return gf256_mul(a, gf256_inv(b))


_MUL = None
_INV = None


def _tables():
    """memo of gf256_mul / gf256_inv (computed with the functions above, for speed only)"""
    global _MUL, _INV
    if _MUL is None:
        _MUL = [[gf256_mul(a, b) for b in range(256)] for a in range(256)]
        _INV = [0] + [next(b for b in range(1, 256) if _MUL[a][b] == 1) for a in range(1, 256)]
    return _MUL, _INV


def lagrange_coefficients(x, xs):
    """l_i(x) = prod_{j != i} (x - x_j) / (x_i - x_j) in GF(256) (subtraction = xor); xs pairwise distinct"""
    mul, inv = _tables()
    out = []
    for i, xi in enumerate(xs):
        num, den = 1, 1
        for j, xj in enumerate(xs):
            if j != i:
                num = mul[num][x ^ xj]
                den = mul[den][xi ^ xj]
        out.append(mul[num][inv[den]])
    return out


def interpolate(x, points):
    """value at x of the unique polynomial of degree < len(points) through points = [(x_i, bytes y_i)],
    applied byte-wise; x_i pairwise distinct, all y_i of one length"""
    mul, _ = _tables()
    cs = lagrange_coefficients(x, [p[0] for p in points])
    n = len(points[0][1])
    out = []
    for b in range(n):
        acc = 0
        for c, (_, y) in zip(cs, points):
            acc ^= mul[c][y[b]]
        out.append(acc)
    return bytes(out)


# --------------------------------------------------------------------------- secret sharing
DIGEST_INDEX = 254
SECRET_INDEX = 255
DIGEST_LEN = 4


def digest(r, s):
    """first 4 bytes of HMAC-SHA256(key = R, msg = S)"""
    return hmac.new(r, s, "sha256").digest()[:DIGEST_LEN]


def split_secret(t, n, s, r, randoms):
    """SplitSecret(T, N, S): list of (x, y) for x = 0..N-1.
    r = the n-4 random bytes of the digest share, randoms = the T-2 random shares (made explicit)"""
    if not 1 <= t <= n <= 16:
        raise ValueError("threshold / share count")
    if t == 1:
        return [(i, s) for i in range(n)]
    d = digest(r, s) + r
    base = [(i, randoms[i]) for i in range(t - 2)] + [(DIGEST_INDEX, d), (SECRET_INDEX, s)]
    return base[:t - 2] + [(i, interpolate(i, base)) for i in range(t - 2, n)]


def recover_secret(t, shares):
    """RecoverSecret(T, shares): S, or None when the digest does not verify (shares: T pairs)"""
    if t == 1:
        return shares[0][1]
    s = interpolate(SECRET_INDEX, shares)
    d = interpolate(DIGEST_INDEX, shares)
    if d[:DIGEST_LEN] != digest(d[DIGEST_LEN:], s):
        return None
    return s


# --------------------------------------------------------------------------- passphrase encryption
BASE_ITERATIONS = 10000
ROUNDS = 4


def salt(ident):
    return b"shamir" + ident.to_bytes(2, "big")


def round_function(i, passphrase, e, slt, r):
    """F(i, R): PBKDF2 written out from RFC 8018 (spec.mnemonic.pbkdf2) with HMAC-SHA256"""
    return _m.pbkdf2_hmac("sha256", bytes([i]) + passphrase, slt + r, (BASE_ITERATIONS << e) // ROUNDS, len(r))


def _feistel(data, ident, e, passphrase, order):
    if len(data) % 2:
        raise ValueError("master secret of odd length")
    half = len(data) // 2
    l, r = data[:half], data[half:]
    for i in order:
        f = round_function(i, passphrase, e, salt(ident), r)
        l, r = r, bytes(a ^ b for a, b in zip(l, f))
    return r + l


def encrypt(ms, ident, e, passphrase):
    return _feistel(ms, ident, e, passphrase, (0, 1, 2, 3))


def decrypt(ems, ident, e, passphrase):
    return _feistel(ems, ident, e, passphrase, (3, 2, 1, 0))


# --------------------------------------------------------------------------- RS1024
GEN = (0xE0E040, 0x1C1C080, 0x3838100, 0x7070200, 0xE0E0009, 0x1C0C2412, 0x38086C24, 0x3090FC48, 0x21B1F890, 0x3F3F120)
CUSTOMIZATION = b"shamir"
CHECKSUM_WORDS = 3


def rs1024_polymod(values):
    """the checksum state machine of the SLIP-39 text, branch-free: every line is GF(2)-linear in chk
    (mask, shift, and xor of constants selected by single bits), then xor v"""
    chk = 1
    for v in values:
        b = chk >> 20
        chk = ((chk & 0xFFFFF) << 10) ^ v
        for i in range(10):
            chk ^= GEN[i] * ((b >> i) & 1)
    return chk


def rs1024_step(chk, v):
    """one iteration of the loop above (used for the linearity argument)"""
    b = chk >> 20
    chk = ((chk & 0xFFFFF) << 10) ^ v
    for i in range(10):
        chk ^= GEN[i] * ((b >> i) & 1)
    return chk


@recursive(returns="int:30", fuel=1)
def rs1024_rec(values, k):
    """the RS1024 checksum register after the first k ten-bit symbols, by recursion on k (one rs1024_step per symbol,
    from the register 1)"""
    if k == 0:
        return 1
    return rs1024_step(rs1024_rec(values, k - 1), values[k - 1])


def rs1024_verify(data):
    return rs1024_polymod(list(CUSTOMIZATION) + list(data)) == 1


def rs1024_checksum(data):
    p = rs1024_polymod(list(CUSTOMIZATION) + list(data) + [0, 0, 0]) ^ 1
    return [(p >> 20) & 1023, (p >> 10) & 1023, p & 1023]


# GF(1024) = GF(2)[x]/(x^10 + x^3 + 1); RS1024 is the Reed-Solomon code with generator polynomial
# g(X) = (X - a)(X - a^2)(X - a^3), a = x (the element 2).  `rs1024_residue` computes the same state as
# `rs1024_polymod` by polynomial long division over GF(1024): an independent reading of the definition.
GF1024_MOD = 0x409


def gf1024_mul(a, b):
    return polymod2(clmul(a, b), GF1024_MOD)


def gf1024_inv(a):
    r, p = 1, a          # a^(1022)
    e = 1022
    while e:
        if e & 1:
            r = gf1024_mul(r, p)
        p = gf1024_mul(p, p)
        e >>= 1
    return r


def rs1024_generator():
    """coefficients (g2, g1, g0) of g(X) = X^3 + g2 X^2 + g1 X + g0 = (X+2)(X+4)(X+8)"""
    r1, r2, r3 = 2, gf1024_mul(2, 2), gf1024_mul(gf1024_mul(2, 2), 2)
    g2 = r1 ^ r2 ^ r3
    g1 = gf1024_mul(r1, r2) ^ gf1024_mul(r1, r3) ^ gf1024_mul(r2, r3)
    g0 = gf1024_mul(gf1024_mul(r1, r2), r3)
    return g2, g1, g0


def rs1024_residue(values):
    """remainder of (X^len + v_0 X^(len-1) + ... + v_{len-1}) modulo g(X), packed as c2<<20 | c1<<10 | c0
    (the implicit leading 1 is the initial state chk = 1)"""
    g2, g1, g0 = rs1024_generator()
    c2, c1, c0 = 0, 0, 1
    for v in values:
        top = c2
        c2, c1, c0 = c1 ^ gf1024_mul(top, g2), c0 ^ gf1024_mul(top, g1), v ^ gf1024_mul(top, g0)
    return c2 << 20 | c1 << 10 | c0


def gf1024_vec_scale(e, s):
    """e * (c2, c1, c0) component-wise on a packed 30-bit triple"""
    return gf1024_mul(e, s >> 20) << 20 | gf1024_mul(e, (s >> 10) & 1023) << 10 | gf1024_mul(e, s & 1023)


def gf1024_det3(a, b, c):
    """determinant of the 3x3 matrix whose columns are the packed triples a, b, c"""
    m = [[v >> 20, (v >> 10) & 1023, v & 1023] for v in (a, b, c)]
    mul = gf1024_mul
    return (mul(m[0][0], mul(m[1][1], m[2][2]) ^ mul(m[1][2], m[2][1]))
            ^ mul(m[0][1], mul(m[1][0], m[2][2]) ^ mul(m[1][2], m[2][0]))
            ^ mul(m[0][2], mul(m[1][0], m[2][1]) ^ mul(m[1][1], m[2][0])))


# --------------------------------------------------------------------------- share <-> word indices
ID_BITS = 15
EXP_BITS = 5
MIN_WORDS = 20
METADATA_WORDS = 7          # 4 header words + 3 checksum words


def value_words(nbytes):
    return -(-8 * nbytes // 10)


def share_indices(ident, e, gi, gt, g, mi, t, value):
    """word indices (0..1023) of the share mnemonic; gt, g, t are the real thresholds/counts (1..16),
    value = share value bytes (16 or 32 for this library)"""
    vw = value_words(len(value))
    n = ident
    n = n * 2 ** EXP_BITS + e
    n = n * 16 + gi
    n = n * 16 + (gt - 1)
    n = n * 16 + (g - 1)
    n = n * 16 + mi
    n = n * 16 + (t - 1)
    n = n * 1024 ** vw + int.from_bytes(value, "big")
    w = 4 + vw
    data = [n // 1024 ** (w - 1 - i) % 1024 for i in range(w)]
    return data + rs1024_checksum(data)


def parse_indices(idx):
    """-> dict of fields, or a string naming the reason the mnemonic is invalid (SLIP-39 'Decoding')"""
    if len(idx) < MIN_WORDS:
        return "too short"
    if not rs1024_verify(idx):
        return "checksum"
    vw = len(idx) - METADATA_WORDS
    pad = 10 * vw % 16
    if pad > 8:
        return "length"
    n = 0
    for x in idx[:-CHECKSUM_WORDS]:
        n = n * 1024 + x
    vbits = 10 * vw
    v = n % 2 ** vbits
    h = n // 2 ** vbits
    if v >= 2 ** (vbits - pad):
        return "padding"
    t = h % 16 + 1
    mi = h // 16 % 16
    g = h // 16 ** 2 % 16 + 1
    gt = h // 16 ** 3 % 16 + 1
    gi = h // 16 ** 4 % 16
    e = h // 16 ** 5 % 32
    ident = h // (16 ** 5 * 32)
    if gt > g:
        return "group threshold exceeds group count"
    return {"id": ident, "exponent": e, "group_index": gi, "group_threshold": gt, "group_count": g,
            "member_index": mi, "member_threshold": t, "value": v.to_bytes((vbits - pad) // 8, "big")}


def wordlist_problems(words):
    """SLIP-39 word list: 1024 words, sorted, 4..8 letters, unique 4-letter prefixes"""
    out = _m.wordlist_problems(words, 1024, 4)
    for w in words:
        if not 4 <= len(w) <= 8:
            out.append("word %r length" % w)
    return out


# --------------------------------------------------------------------------- whole scheme, single level
def generate(ms, t, n, ident, e, passphrase, r, randoms):
    """what a k-of-n split of the master secret looks like in the layout used by the library under test:
    n groups of one 1-of-1 member each, group threshold t (group index = x coordinate)"""
    ems = encrypt(ms, ident, e, passphrase)
    return [share_indices(ident, e, x, t, n, 0, 1, y) for x, y in split_secret(t, n, ems, r, randoms)]


def combine(shares_idx, passphrase):
    """CombineMnemonics of the SLIP-39 text (two levels: members within groups, then groups); returns the
    master secret or a string naming the reason for rejection.  More than the threshold number of shares
    is tolerated (the polynomial through them is the same)."""
    parsed = []
    for idx in shares_idx:
        p = parse_indices(idx)
        if isinstance(p, str):
            return p
        parsed.append(p)
    if not parsed:
        return "no shares"
    for f in ("id", "exponent", "group_threshold", "group_count"):
        if len({p[f] for p in parsed}) != 1:
            return "mismatching " + f
    if len({len(p["value"]) for p in parsed}) != 1:
        return "mismatching length"
    xs = [(p["group_index"], p["member_index"]) for p in parsed]
    if len(set(xs)) != len(xs):
        return "duplicate index"
    gt = parsed[0]["group_threshold"]
    groups = {}
    for p in parsed:
        groups.setdefault(p["group_index"], []).append(p)
    if len(groups) < gt:
        return "not enough groups"
    gpoints = []
    for gi in sorted(groups):
        members = groups[gi]
        if len({p["member_threshold"] for p in members}) != 1:
            return "mismatching member threshold"
        t = members[0]["member_threshold"]
        if len(members) < t:
            return "not enough members"
        y = recover_secret(t, [(p["member_index"], p["value"]) for p in members])
        if y is None:
            return "digest"
        gpoints.append((gi, y))
    ems = recover_secret(gt, gpoints)
    if ems is None:
        return "digest"
    return decrypt(ems, parsed[0]["id"], parsed[0]["exponent"], passphrase)
