"""Wire-format spec functions, written from the Bitcoin protocol documentation
(https://en.bitcoin.it/wiki/Protocol_documentation), BIP144 and BIP141 -- independent of
the repository.  Executable Python in the pyvc subset: the same text is the SMT term and
the replay oracle."""


def le(n, w):
    """w-byte little-endian encoding of n"""
    return n.to_bytes(w, "little")


def be(n, w):
    return n.to_bytes(w, "big")


def compact_size(n):
    """CompactSize ("var_int"): canonical widths"""
    if n < 0xFD:
        return le(n, 1)
    if n <= 0xFFFF:
        return b"\xfd" + le(n, 2)
    if n <= 0xFFFFFFFF:
        return b"\xfe" + le(n, 4)
    return b"\xff" + le(n, 8)


def varstr(b):
    return compact_size(len(b)) + b


def push_data(b):
    """script push of element b, minimal push opcodes of Bitcoin Core's CScript::operator<<"""
    n = len(b)
    if n < 0x4C:                    # 0..75: the length byte itself is the opcode
        return le(n, 1) + b
    if n <= 0xFF:
        return b"\x4c" + le(n, 1) + b
    if n <= 0xFFFF:
        return b"\x4d" + le(n, 2) + b
    return b"\x4e" + le(n, 4) + b


# ---------------------------------------------------------------------------- hashes
import hashlib


def sha256(b):
    return hashlib.sha256(b).digest()


def hash256(b):
    return hashlib.sha256(hashlib.sha256(b).digest()).digest()


def hash160(b):
    return hashlib.new("ripemd160", hashlib.sha256(b).digest()).digest()


# ---------------------------------------------------------------------------- P2P messages
MAGIC = {"mainnet": b"\xf9\xbe\xb4\xd9", "testnet": b"\x0b\x11\x09\x07",
         "signet": b"\x0a\x03\xcf\x40", "regtest": b"\xfa\xbf\xb5\xda"}


def envelope(magic, command, payload):
    """message header of the Bitcoin P2P protocol: magic(4) command(12, NUL padded) length(4 LE)
    checksum(4) payload"""
    return magic + command + bytes(12 - len(command)) + le(len(payload), 4) + hash256(payload)[:4] + payload


def header80(version, prev_block, merkle_root, timestamp, bits, nonce):
    """80-byte block header; prev_block / merkle_root are given in display (big-endian) order"""
    return le(version, 4) + prev_block[::-1] + merkle_root[::-1] + le(timestamp, 4) + bits + nonce


def net_addr(services, ip4, port):
    """version-message network address without timestamp: services(8 LE), IPv4-mapped IPv6,
    port in network byte order (big-endian) -- protocol documentation, "Network address"."""
    return le(services, 8) + bytes(10) + b"\xff\xff" + ip4 + be(port, 2)


def version_msg(version, services, timestamp, r_services, r_ip, r_port, s_services, s_ip, s_port,
                nonce8, user_agent, latest_block, relay):
    return (le(version, 4) + le(services, 8) + le(timestamp, 8)
            + net_addr(r_services, r_ip, r_port)
            + net_addr(s_services, s_ip, s_port)
            + nonce8 + varstr(user_agent) + le(latest_block, 4) + (b"\x01" if relay else b"\x00"))


def getheaders_msg(version, num_hashes, start_block, end_block):
    return le(version, 4) + compact_size(num_hashes) + start_block[::-1] + end_block[::-1]


def getcfilters_msg(filter_type, start_height, stop_hash):
    return le(filter_type, 1) + le(start_height, 4) + stop_hash[::-1]


def getcfcheckpt_msg(filter_type, stop_hash):
    return le(filter_type, 1) + stop_hash[::-1]


def cfilter_msg(filter_type, block_hash, filter_bytes):
    return le(filter_type, 1) + block_hash[::-1] + varstr(filter_bytes)


def inv_item(data_type, identifier):
    return le(data_type, 4) + identifier[::-1]


def int_le(b):
    """value of a little-endian byte string: sum b[i] * 256**i"""
    return int.from_bytes(b, "little")


def int_be(b):
    return int.from_bytes(b, "big")
