"""bounded companions: the executable contracts run on the real functions over boundary,
enumerated and seeded-random inputs.  Labelled bounded in the evidence; never counted as proved."""
import random
import time

from verif import rt
from verif.pyvc import verifier


def fuzz_contracts(names, seed, tier, budget_s=None, per_contract=None):
    """run every named contract's generator through rt.run_concrete"""
    rng = random.Random(seed * 1000003 + 17)
    evals = 0
    distinct = set()
    failures = []
    samples = []
    t0 = time.time()
    budget_s = budget_s or (20 if tier == "quick" else 180)
    n_per = per_contract or (300 if tier == "quick" else 5000)
    share = budget_s / max(1, len(names))
    pre_false = 0
    for nm in names:
        c = verifier.REG.contracts[nm]
        if c.gen is None:
            continue
        t1 = time.time()
        k = 0
        nfail = 0
        for inputs in c.gen(rng, tier):
            if k >= n_per or time.time() - t1 > share:
                break
            k += 1
            try:
                r = rt.run_concrete(c, inputs)
            except Exception as e:      # harness problem, not a verdict
                r = {"status": "error", "why": repr(e)}
            if r["status"] == "pre-false":
                pre_false += 1
                continue
            evals += 1
            try:
                distinct.add((nm, repr(sorted(inputs.items(), key=lambda kv: kv[0]))[:300]))
            except Exception:
                pass
            if len(samples) < 3 and k % 5 == 1:
                samples.append({"contract": nm, "inputs": verifier.jsonable(inputs), "outcome": r.get("outcome")})
            if r["status"] == "violated":
                nfail += 1
                if nfail <= 3:
                    failures.append({"contract": nm, "inputs": verifier.jsonable(inputs), "violated": r["violated"],
                                     "what": "%s violates: %s" % (nm, "; ".join(r["violated"])[:300])})
    return {"evaluations": evals, "distinct": len(distinct), "failures": failures, "samples": samples,
            "bound": "per contract: up to %d generated inputs or %.0fs; generators enumerate the boundary values of the property text and then draw seeded random inputs" % (n_per, share),
            "pre_false": pre_false}


def fuzz_job(names, quick_budget_s=None, thorough_budget_s=None):
    def run(seed, tier):
        return fuzz_contracts(names, seed, tier, budget_s=quick_budget_s if tier == "quick" else thorough_budget_s)
    return run


def fuzz_jobs_split(names, quick_budget_s=30, thorough_budget_s=240, label="rt-contracts"):
    """one pool job per contract (they run in parallel), each with its own time budget"""
    return [("%s:%s" % (label, nm), fuzz_job([nm], quick_budget_s, thorough_budget_s)) for nm in names]
