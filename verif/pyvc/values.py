"""Symbolic value domain of pyvc.

Concrete Python values (int, bool, bytes, str, None, tuple, real functions/classes/modules)
stand for themselves.  Symbolic values:

  SInt(t)          mathematical integer, t a z3 Int term (Python ints are unbounded => exact)
  SBV(t, bound)    bit-vector mode integer: true value v with 0 <= v < 2**bound and
                   t == v mod 2**W; "exact" iff bound <= W
  SBool(t)         z3 Bool term
  SBytes(chunks)   byte string as a tuple of chunks:
                     bytes                      concrete piece
                     IB(t, w, endian)           w-byte encoding of Int term t (0 <= t < 256**w)
                     OB(t, n)                   opaque piece: z3 term of sort B, length n
                                                (python int or z3 Int term)
  Ref(id)          reference into the path-local heap (lists, objects, streams, dicts)
"""
import z3

BSort = z3.DeclareSort("B")
ObjSort = z3.DeclareSort("Obj")

# uninterpreted structure on B
B_at = z3.Function("b_at", BSort, z3.IntSort(), z3.IntSort())          # byte i of b
B_len = z3.Function("b_len", BSort, z3.IntSort())
B_slice = z3.Function("b_slice", BSort, z3.IntSort(), z3.IntSort(), BSort)
B_cat = z3.Function("b_cat", BSort, BSort, BSort)
B_ib_le = z3.Function("b_ib_le", z3.IntSort(), z3.IntSort(), BSort)    # (value, width)
B_ib_be = z3.Function("b_ib_be", z3.IntSort(), z3.IntSort(), BSort)
B_rev = z3.Function("b_rev", BSort, BSort)
B_empty = z3.Const("b_empty", BSort)
B_int_le = z3.Function("b_int_le", BSort, z3.IntSort())                # int.from_bytes(b,'little')
B_int_be = z3.Function("b_int_be", BSort, z3.IntSort())

_const_cache = {}


def B_const(bs):
    """A distinct B constant per concrete byte string (injective by naming)."""
    k = bytes(bs)
    if k not in _const_cache:
        _const_cache[k] = z3.Const("b_k_" + k.hex(), BSort)
    return _const_cache[k]


class Sym:
    pass


class SMsg(Sym):
    """a formatted text with symbolic ingredients whose content is not modelled: only fit to be carried by an exception or
    printed; every other use (comparison, concatenation, slicing, truth value) is `undecided`"""

    def __repr__(self):
        return "<formatted text>"


class SInt(Sym):
    __slots__ = ("t",)

    def __init__(self, t):
        self.t = t

    def __repr__(self):
        return "SInt(%s)" % self.t


class SBV(Sym):
    __slots__ = ("t", "bound")

    def __init__(self, t, bound):
        self.t = t
        self.bound = bound

    def __repr__(self):
        return "SBV(%s,<2^%d)" % (self.t, self.bound)


class SBool(Sym):
    __slots__ = ("t",)

    def __init__(self, t):
        self.t = t

    def __repr__(self):
        return "SBool(%s)" % self.t


class TInt(Sym):
    """instance of a user subclass of int (buidl.timelock.Locktime / Sequence): class tag + int value"""
    __slots__ = ("cls", "val")

    def __init__(self, cls, val):
        self.cls, self.val = cls, val

    def __repr__(self):
        return "TInt(%s,%r)" % (self.cls.__name__, self.val)


class IB:
    __slots__ = ("t", "w", "end")

    def __init__(self, t, w, end):
        self.t, self.w, self.end = t, w, end

    def __repr__(self):
        return "IB(%s,%d,%s)" % (self.t, self.w, self.end)


class OB:
    __slots__ = ("t", "n")

    def __init__(self, t, n):
        self.t, self.n = t, n

    def __repr__(self):
        return "OB(%s,len=%s)" % (self.t, self.n)


class SBytes(Sym):
    __slots__ = ("chunks",)

    def __init__(self, chunks):
        self.chunks = tuple(chunks)

    def __repr__(self):
        return "SBytes%r" % (self.chunks,)


class Ref:
    __slots__ = ("id",)

    def __init__(self, id):
        self.id = id

    def __repr__(self):
        return "Ref(%d)" % self.id

    def __eq__(self, o):
        return isinstance(o, Ref) and o.id == self.id

    def __hash__(self):
        return hash(("Ref", self.id))


class HList:
    """heap list; `pre` is None or (z3 Seq-like opaque id, length term) for a symbolic prefix."""

    def __init__(self, items, pre=None):
        self.items = list(items)
        self.pre = pre


class HObj:
    def __init__(self, cls, fields=None):
        self.cls = cls
        self.fields = dict(fields or {})


class HStream:
    def __init__(self, chunks):
        self.rem = list(chunks)      # remaining chunks after the cursor
        self.consumed = []           # chunks already read (for seek(-k,1) / tell)


class HDict:
    def __init__(self, items=None):
        self.items = list(items or [])   # association list [(key, value)], concrete keys


class HByteArray:
    def __init__(self, val=b""):
        self.val = val                # a bytes value (bytes | SBytes)


class Closure:
    def __init__(self, node, env, glob, name="<lambda>"):
        self.node, self.env, self.glob, self.name = node, env, glob, name


class BoundMethod:
    def __init__(self, self_val, fn):
        self.self_val, self.fn = self_val, fn


class BuiltinMethod:
    def __init__(self, self_val, name):
        self.self_val, self.name = self_val, name


def chunk_len(c):
    if isinstance(c, (bytes, bytearray)):
        return len(c)
    if isinstance(c, IB):
        return c.w
    return c.n


def is_conc_len(c):
    return isinstance(chunk_len(c), int)


def norm_chunks(chunks):
    """flatten, merge adjacent constants, drop empties, fold concrete IBs."""
    out = []
    for c in chunks:
        if isinstance(c, SBytes):
            sub = c.chunks
        else:
            sub = (c,)
        for d in sub:
            if isinstance(d, IB) and z3.is_int_value(d.t):
                v = d.t.as_long()
                if 0 <= v < 256 ** d.w:
                    d = v.to_bytes(d.w, d.end)
            if isinstance(d, IB) and d.w == 0:
                continue
            if isinstance(d, (bytes, bytearray)):
                d = bytes(d)
                if not d:
                    continue
                if out and isinstance(out[-1], bytes):
                    out[-1] = out[-1] + d
                    continue
            if isinstance(d, OB) and isinstance(d.n, int) and d.n == 0:
                continue
            out.append(d)
    return out


def mk_bytes(chunks):
    out = norm_chunks(chunks)
    if not out:
        return b""
    if len(out) == 1 and isinstance(out[0], bytes):
        return out[0]
    return SBytes(out)


def as_chunks(v):
    if isinstance(v, (bytes, bytearray)):
        return [bytes(v)] if v else []
    if isinstance(v, SBytes):
        return list(v.chunks)
    raise TypeError("not bytes: %r" % (v,))


def is_bytes(v):
    return isinstance(v, (bytes, SBytes))


def chunks_to_B(chunks):
    """canonical B-sorted z3 term of a chunk list (right-nested b_cat)."""
    chunks = norm_chunks(chunks)
    terms = []
    for c in chunks:
        if isinstance(c, bytes):
            terms.append(B_const(c))
        elif isinstance(c, IB):
            f = B_ib_le if (c.end == "little" or c.w == 1) else B_ib_be
            terms.append(f(c.t, z3.IntVal(c.w)))
        else:
            terms.append(c.t)
    if not terms:
        return B_empty
    t = terms[-1]
    for u in reversed(terms[:-1]):
        t = B_cat(u, t)
    return t


def bytes_to_B(v):
    return chunks_to_B(as_chunks(v))
