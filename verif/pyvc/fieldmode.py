"""Abstract-field execution of buidl.pecc.FieldElement / Point (property C03).

FieldElement objects carry a term of an uninterpreted sort F; the FieldElement methods are
replaced by term constructors (their own correctness w.r.t. modular arithmetic is a separate
contract: the methods implement the field Z/p), so that running the REAL Point.__add__ yields,
per path, a path condition and result coordinates as field terms.  Those are printed as Lean
and proved equal to Mathlib's Weierstrass point addition (verif/lean/PointLemmas.lean)."""
import z3

from .values import *  # noqa
from .engine import Undecided, PyExc, I

FS = z3.DeclareSort("FieldF")
F_add = z3.Function("f_add", FS, FS, FS)
F_sub = z3.Function("f_sub", FS, FS, FS)
F_mul = z3.Function("f_mul", FS, FS, FS)
F_div = z3.Function("f_div", FS, FS, FS)
F_pow = z3.Function("f_pow", FS, z3.IntSort(), FS)
F_nat = z3.Function("f_nat", z3.IntSort(), FS)


def _pecc():
    from buidl import pecc
    return pecc


def fe(m, term):
    return m.p.alloc(HObj(_pecc().FieldElement, {"_ft": term}))


def ft(m, v):
    if isinstance(v, Ref):
        o = m.p.deref(v)
        if isinstance(o, HObj) and "_ft" in o.fields:
            return o.fields["_ft"]
    return None


def _bin(f):
    def h(m, args, kwargs):
        a, b = ft(m, args[0]), ft(m, args[1]) if len(args) > 1 else None
        if a is None:
            return NotImplemented
        if b is None:
            raise Undecided("abstract field element combined with a concrete one")
        return fe(m, f(a, b))
    return h


def i_pow(m, args, kwargs):
    a = ft(m, args[0])
    if a is None:
        return NotImplemented
    n = args[1]
    if not isinstance(n, int) or n < 0:
        raise Undecided("abstract field power with symbolic or negative exponent")
    return fe(m, F_pow(a, I(n)))


def i_rmul(m, args, kwargs):
    a = ft(m, args[0])
    if a is None:
        return NotImplemented
    c = args[1]
    if not isinstance(c, int):
        raise Undecided("abstract field element times symbolic integer")
    return fe(m, F_mul(F_nat(I(c)), a))


def i_eq(m, args, kwargs):
    a = ft(m, args[0])
    if a is None:
        return NotImplemented
    if args[1] is None:
        return False
    b = ft(m, args[1])
    if b is None:
        raise Undecided("abstract field element compared with a concrete value")
    return m.mkbool(a == b)


def install_on(machine):
    pecc = _pecc()
    FE = pecc.FieldElement
    machine.intrinsics[FE.__add__] = _bin(F_add)
    machine.intrinsics[FE.__sub__] = _bin(F_sub)
    machine.intrinsics[FE.__mul__] = _bin(F_mul)
    machine.intrinsics[FE.__truediv__] = _bin(F_div)
    machine.intrinsics[FE.__pow__] = i_pow
    machine.intrinsics[FE.__rmul__] = i_rmul
    machine.intrinsics[FE.__eq__] = i_eq


# ---------------------------------------------------------------------------- Lean printing
def lean(t, names):
    """Lean 4 term of a field term / condition"""
    if z3.is_const(t) and t.decl().kind() == z3.Z3_OP_UNINTERPRETED:
        return names.get(str(t), str(t))
    d = t.decl()
    k = d.kind()
    ch = t.children()
    if d.eq(F_add):
        return "(%s + %s)" % (lean(ch[0], names), lean(ch[1], names))
    if d.eq(F_sub):
        return "(%s - %s)" % (lean(ch[0], names), lean(ch[1], names))
    if d.eq(F_mul):
        return "(%s * %s)" % (lean(ch[0], names), lean(ch[1], names))
    if d.eq(F_div):
        return "(%s / %s)" % (lean(ch[0], names), lean(ch[1], names))
    if d.eq(F_pow):
        return "(%s ^ %d)" % (lean(ch[0], names), ch[1].as_long())
    if d.eq(F_nat):
        return "(%d : F)" % ch[0].as_long()
    if k == z3.Z3_OP_EQ:
        return "(%s = %s)" % (lean(ch[0], names), lean(ch[1], names))
    if k == z3.Z3_OP_NOT:
        return "(¬ %s)" % lean(ch[0], names)
    if k == z3.Z3_OP_DISTINCT:
        return "(%s ≠ %s)" % (lean(ch[0], names), lean(ch[1], names))
    if k == z3.Z3_OP_AND:
        return "(" + " ∧ ".join(lean(c, names) for c in ch) + ")"
    raise Undecided("cannot print %s as Lean" % t)


def explore_point_add(timeout_ms=10000):
    """run the real Point.__add__ on abstract points; -> list of path records"""
    from .engine import Explorer, PathEnd, Infeasible
    from .verifier import Machine, REG
    pecc = _pecc()
    out = []
    shapes = [("fin", "fin"), ("inf", "fin"), ("fin", "inf"), ("inf", "inf")]
    for shape in shapes:
        ex = Explorer(timeout_ms=timeout_ms)

        def body(p, shape=shape):
            m = Machine(p, REG)
            install_on(m)
            c = {n: z3.Const(n, FS) for n in ("a", "b", "x1", "y1", "x2", "y2")}
            a, b = fe(m, c["a"]), fe(m, c["b"])

            def mk(kind, x, y):
                if kind == "inf":
                    return p.alloc(HObj(pecc.Point, {"x": None, "y": None, "a": a, "b": b}))
                return p.alloc(HObj(pecc.Point, {"x": fe(m, x), "y": fe(m, y), "a": a, "b": b}))
            P1 = mk(shape[0], c["x1"], c["y1"])
            P2 = mk(shape[1], c["x2"], c["y2"])
            n0 = len(p.pc)
            try:
                r = m.call_function(pecc.Point.__add__, [P1, P2], {})
                o = p.deref(r)
                if o.fields.get("x") is None:
                    res = ("inf",)
                else:
                    res = ("pt", ft(m, o.fields["x"]), ft(m, o.fields["y"]))
            except PyExc as e:
                res = ("raise", e.cls.__name__)
            return {"shape": shape, "conds": list(p.pc[n0:]), "result": res}
        for p, kind, rec in ex.explore(body):
            out.append(rec)
    return out


# ---------------------------------------------------------------------------- abstract group mode (C03.4)
GS = z3.DeclareSort("GroupG")
G_add = z3.Function("g_add", GS, GS, GS)
G_zero = z3.Const("g_zero", GS)
G_nsmul = z3.Function("g_nsmul", z3.IntSort(), GS, GS)


def group_axioms():
    """commutative monoid laws of the point group and nsmul at 0 (the group structure itself is what the
    Lean theorems of lean/gen/PointAdd.lean give: Point.__add__ is Mathlib's AddCommGroup addition)"""
    x, y, z = z3.Consts("gx gy gz", GS)
    return [z3.ForAll([x, y], G_add(x, y) == G_add(y, x), patterns=[G_add(x, y)]),
            z3.ForAll([x, y, z], G_add(G_add(x, y), z) == G_add(x, G_add(y, z)), patterns=[G_add(G_add(x, y), z)]),
            z3.ForAll([x], G_add(x, G_zero) == x, patterns=[G_add(x, G_zero)]),
            z3.ForAll([x], G_nsmul(I(0), x) == G_zero, patterns=[G_nsmul(I(0), x)])]


def gterm(m, v):
    o = m.p.deref(v)
    if "_g" in o.fields:
        return o.fields["_g"]
    if o.fields.get("x", 1) is None:
        return G_zero
    raise Undecided("concrete point in abstract group mode")


def gpoint(m, term, like=None):
    pecc = _pecc()
    f = {"_g": term, "x": "<abstract>", "y": "<abstract>"}
    if like is not None:
        lo = m.p.deref(like).fields
        f["a"], f["b"] = lo.get("a"), lo.get("b")
    cls = m.p.deref(like).cls if like is not None else pecc.Point
    return m.p.alloc(HObj(cls, f))


def _is_abs_point(m, v):
    return isinstance(v, Ref) and isinstance(m.p.deref(v), HObj) and ("_g" in m.p.deref(v).fields)


def install_group(m):
    pecc = _pecc()
    from verif.specs import group as sg

    def p_add(mach, args, kwargs):
        a, b = args[0], args[1]
        if not (_is_abs_point(mach, a) or _is_abs_point(mach, b)):
            return NotImplemented
        return gpoint(mach, G_add(gterm(mach, a), gterm(mach, b)), like=a if _is_abs_point(mach, a) else b)

    def s_nsmul(mach, args, kwargs):
        k, p = args
        return gpoint(mach, G_nsmul(mach.it(k), gterm(mach, p)), like=p)

    def s_eq(mach, args, kwargs):
        return mach.mkbool(gterm(mach, args[0]) == gterm(mach, args[1]))

    def s_step(mach, args, kwargs):
        """ground instances of the commutative-monoid laws and of the Lean lemma nsmul_binary_step for the
        terms of one loop iteration: c = coef, q = current, r = result"""
        c, q = mach.it(args[0]), gterm(mach, args[1])
        r = gterm(mach, args[2]) if len(args) > 2 else G_zero
        half = G_nsmul(c / 2, G_add(q, q))
        mach.p.assume(z3.Implies(c >= 0, G_nsmul(c, q) == G_add(half, z3.If(c % 2 == 1, q, G_zero))))
        mach.p.assume(G_nsmul(I(0), q) == G_zero)
        for t in (r, half, q, G_add(r, q), G_nsmul(c, q)):
            mach.p.assume(G_add(t, G_zero) == t)
            mach.p.assume(G_add(G_zero, t) == t)
        mach.p.assume(G_add(G_add(r, q), half) == G_add(r, G_add(half, q)))       # associativity + commutativity
        return True
    m.intrinsics[pecc.Point.__add__] = p_add
    m.intrinsics[sg.add] = p_add
    m.intrinsics[sg.nsmul] = s_nsmul
    m.intrinsics[sg.eq] = s_eq
    m.intrinsics[sg.binary_step] = s_step
