"""Abstract-field execution of buidl.pecc.FieldElement / Point (property C03).

FieldElement objects carry a term of an uninterpreted sort F; the FieldElement methods are
replaced by term constructors (their own correctness w.r.t. modular arithmetic is a separate
contract: the methods implement the field Z/p), so that running the REAL Point.__add__ yields,
per path, a path condition and result coordinates as field terms.  Those are printed as Lean
and proved equal to Mathlib's Weierstrass point addition (verif/lean/PointLemmas.lean)."""
import z3

from .values import *  # noqa
from .engine import Undecided, PyExc, I

FS = z3.DeclareSort("FieldF")
F_add = z3.Function("f_add", FS, FS, FS)
F_sub = z3.Function("f_sub", FS, FS, FS)
F_mul = z3.Function("f_mul", FS, FS, FS)
F_div = z3.Function("f_div", FS, FS, FS)
F_pow = z3.Function("f_pow", FS, z3.IntSort(), FS)
F_nat = z3.Function("f_nat", z3.IntSort(), FS)


def _pecc():
    from buidl import pecc
    return pecc


def fe(m, term):
    return m.p.alloc(HObj(_pecc().FieldElement, {"_ft": term}))


def ft(m, v):
    if isinstance(v, Ref):
        o = m.p.deref(v)
        if isinstance(o, HObj) and "_ft" in o.fields:
            return o.fields["_ft"]
    return None


def _bin(f):
    def h(m, args, kwargs):
        a, b = ft(m, args[0]), ft(m, args[1]) if len(args) > 1 else None
        if a is None:
            return NotImplemented
        if b is None:
            raise Undecided("abstract field element combined with a concrete one")
        return fe(m, f(a, b))
    return h


def i_pow(m, args, kwargs):
    a = ft(m, args[0])
    if a is None:
        return NotImplemented
    n = args[1]
    if not isinstance(n, int) or n < 0:
        raise Undecided("abstract field power with symbolic or negative exponent")
    return fe(m, F_pow(a, I(n)))


def i_rmul(m, args, kwargs):
    a = ft(m, args[0])
    if a is None:
        return NotImplemented
    c = args[1]
    if not isinstance(c, int):
        raise Undecided("abstract field element times symbolic integer")
    return fe(m, F_mul(F_nat(I(c)), a))


def i_eq(m, args, kwargs):
    a = ft(m, args[0])
    if a is None:
        return NotImplemented
    if args[1] is None:
        return False
    b = ft(m, args[1])
    if b is None:
        raise Undecided("abstract field element compared with a concrete value")
    return m.mkbool(a == b)


def install_on(machine):
    pecc = _pecc()
    FE = pecc.FieldElement
    machine.intrinsics[FE.__add__] = _bin(F_add)
    machine.intrinsics[FE.__sub__] = _bin(F_sub)
    machine.intrinsics[FE.__mul__] = _bin(F_mul)
    machine.intrinsics[FE.__truediv__] = _bin(F_div)
    machine.intrinsics[FE.__pow__] = i_pow
    machine.intrinsics[FE.__rmul__] = i_rmul
    machine.intrinsics[FE.__eq__] = i_eq


# ---------------------------------------------------------------------------- Lean printing
def lean(t, names):
    """Lean 4 term of a field term / condition"""
    if z3.is_const(t) and t.decl().kind() == z3.Z3_OP_UNINTERPRETED:
        return names.get(str(t), str(t))
    d = t.decl()
    k = d.kind()
    ch = t.children()
    if d.eq(F_add):
        return "(%s + %s)" % (lean(ch[0], names), lean(ch[1], names))
    if d.eq(F_sub):
        return "(%s - %s)" % (lean(ch[0], names), lean(ch[1], names))
    if d.eq(F_mul):
        return "(%s * %s)" % (lean(ch[0], names), lean(ch[1], names))
    if d.eq(F_div):
        return "(%s / %s)" % (lean(ch[0], names), lean(ch[1], names))
    if d.eq(F_pow):
        return "(%s ^ %d)" % (lean(ch[0], names), ch[1].as_long())
    if d.eq(F_nat):
        return "(%d : F)" % ch[0].as_long()
    if k == z3.Z3_OP_EQ:
        return "(%s = %s)" % (lean(ch[0], names), lean(ch[1], names))
    if k == z3.Z3_OP_NOT:
        return "(¬ %s)" % lean(ch[0], names)
    if k == z3.Z3_OP_DISTINCT:
        return "(%s ≠ %s)" % (lean(ch[0], names), lean(ch[1], names))
    if k == z3.Z3_OP_AND:
        return "(" + " ∧ ".join(lean(c, names) for c in ch) + ")"
    raise Undecided("cannot print %s as Lean" % t)


def explore_point_add(timeout_ms=10000):
    """run the real Point.__add__ on abstract points; -> list of path records"""
    from .engine import Explorer, PathEnd, Infeasible
    from .verifier import Machine, REG
    pecc = _pecc()
    out = []
    shapes = [("fin", "fin"), ("inf", "fin"), ("fin", "inf"), ("inf", "inf")]
    for shape in shapes:
        ex = Explorer(timeout_ms=timeout_ms)

        def body(p, shape=shape):
            m = Machine(p, REG)
            install_on(m)
            c = {n: z3.Const(n, FS) for n in ("a", "b", "x1", "y1", "x2", "y2")}
            a, b = fe(m, c["a"]), fe(m, c["b"])

            def mk(kind, x, y):
                if kind == "inf":
                    return p.alloc(HObj(pecc.Point, {"x": None, "y": None, "a": a, "b": b}))
                return p.alloc(HObj(pecc.Point, {"x": fe(m, x), "y": fe(m, y), "a": a, "b": b}))
            P1 = mk(shape[0], c["x1"], c["y1"])
            P2 = mk(shape[1], c["x2"], c["y2"])
            n0 = len(p.pc)
            try:
                r = m.call_function(pecc.Point.__add__, [P1, P2], {})
                o = p.deref(r)
                if o.fields.get("x") is None:
                    res = ("inf",)
                else:
                    res = ("pt", ft(m, o.fields["x"]), ft(m, o.fields["y"]))
            except PyExc as e:
                res = ("raise", e.cls.__name__)
            return {"shape": shape, "conds": list(p.pc[n0:]), "result": res}
        for p, kind, rec in ex.explore(body):
            out.append(rec)
    return out
