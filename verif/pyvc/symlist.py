"""Lists of symbolic length whose members are abstract elements ("atoms").

Used to verify loops of the shape `for x in xs: acc += x.serialize()` for EVERY list length
(DESIGN 1.1 "loop idioms"): the loop gets a sidecar invariant over a recursively defined spec
function (verif/specs/listser.py: concat_ser), the element serialisers are abstract
deterministic functions of the element (their own correctness is the element-level contract),
so what is proved is the *structure*: count prefix, every element once, in order, nothing else."""
import z3

from .values import *  # noqa
from .engine import Undecided, PyExc, I, id_key, TKey

ListSort = z3.DeclareSort("SymList")
AtomSort = z3.DeclareSort("Atom")
ELEM = z3.Function("list_elem", ListSort, z3.IntSort(), AtomSort)


def _resolve(dotted):
    from .verifier import resolve
    return resolve(dotted)


def field_value(m, atom, tag, kind):
    """a symbolic value that is a FUNCTION of the abstract element (same element -> same value):
    'bytes:N' | 'bytes' | ('int', lo, hi) | ('tint', class, lo, hi)"""
    if isinstance(kind, str) and kind.startswith("bytes"):
        t = z3.Function("atom_b_" + tag, AtomSort, BSort)(atom)
        if kind == "bytes":
            n = z3.Function("atom_blen_" + tag, AtomSort, z3.IntSort())(atom)
            m.p.assume(n >= 0)
        else:
            n = int(kind[6:])
        m.p.blen[id_key(t)] = n
        return SBytes([OB(t, n)])
    if isinstance(kind, tuple) and kind[0] in ("int", "tint"):
        lo, hi = kind[-2], kind[-1]
        t = z3.Function("atom_i_" + tag, AtomSort, z3.IntSort())(atom)
        m.p.assume(z3.And(t >= lo, t <= hi))
        v = m.wrap_int_term(t, hi.bit_length() if lo >= 0 else None)
        return TInt(_resolve(kind[1]), v) if kind[0] == "tint" else v
    if isinstance(kind, tuple) and kind[0] == "keypath_witness":
        # a taproot key-path witness without annex: exactly one item, the 64-byte signature
        from buidl.witness import Witness
        sig = field_value(m, atom, tag + "_sig", "bytes:64")
        return m.p.alloc(HObj(Witness, {"items": m.p.alloc(HList([sig]))}))
    raise Undecided("symlist field kind %r" % (kind,))


def symtuples(tag, kinds, max_len=None):
    """a list of arbitrary length of tuples whose members are functions of an abstract element"""
    def mk(m, name):
        L = m.p.fresh(name, ListSort)
        n = m.p.fresh(name + "_len")
        m.p.assume(n >= 0)
        if max_len is not None:
            m.p.assume(n <= max_len)
        memo = {}

        def elem(kt):
            kt = z3.simplify(kt if not isinstance(kt, int) else I(kt))
            key = TKey(kt)
            if key not in memo:
                memo[key] = tuple(field_value(m, ELEM(L, kt), "%s_%d" % (tag, j), kd) for j, kd in enumerate(kinds))
            return memo[key]
        return m.p.alloc(HList([], pre=(L, n, elem)))
    return mk


def symvalues(tag, kind, max_len=None):
    """a list of arbitrary length of plain values (e.g. 'bytes:32' hashes), each a function of an abstract element"""
    def mk(m, name):
        L = m.p.fresh(name, ListSort)
        n = m.p.fresh(name + "_len")
        m.p.assume(n >= 0)
        if max_len is not None:
            m.p.assume(n <= max_len)
        memo = {}

        def elem(kt):
            kt = z3.simplify(kt if not isinstance(kt, int) else I(kt))
            key = TKey(kt)
            if key not in memo:
                memo[key] = field_value(m, ELEM(L, kt), tag, kind)
            return memo[key]
        return m.p.alloc(HList([], pre=(L, n, elem)))
    return mk


def symlist(cls_dotted, subatoms=None, max_len=None, fields=None):
    """kind for Contract.params: a list of arbitrary length of abstract instances of cls;
    `fields` gives attributes that are symbolic functions of the element (see field_value)"""
    def mk(m, name):
        cls = _resolve(cls_dotted)
        L = m.p.fresh(name, ListSort)
        n = m.p.fresh(name + "_len")
        m.p.assume(n >= 0)
        if max_len is not None:
            m.p.assume(n <= max_len)
        memo = {}
        subs = {k: _resolve(v) for k, v in (subatoms or {}).items()}

        def elem(kt):
            kt = z3.simplify(kt if not isinstance(kt, int) else I(kt))
            key = TKey(kt)
            if key not in memo:
                a = ELEM(L, kt)
                fl = {"_atom": a, "_subatoms": subs}
                for fname, kd in (fields or {}).items():
                    fl[fname] = field_value(m, a, cls.__name__ + "_" + fname, kd)
                memo[key] = m.p.alloc(HObj(cls, fl))
            return memo[key]
        return m.p.alloc(HList([], pre=(L, n, elem)))
    return mk


def sub_atom(m, ref, o, name):
    cache = o.fields.setdefault("_subcache", {})
    if name not in cache:
        f = z3.Function("atom_field_" + name, AtomSort, AtomSort)
        cache[name] = m.p.alloc(HObj(o.fields["_subatoms"][name], {"_atom": f(o.fields["_atom"]), "_subatoms": {}}))
    return cache[name]


def atom_serialize(tag):
    """intrinsic for `<atom>.serialize()`: an uninterpreted byte string determined by the element"""
    f = z3.Function("atom_ser_" + tag, AtomSort, BSort)
    fl = z3.Function("atom_serlen_" + tag, AtomSort, z3.IntSort())

    def h(m, args, kwargs):
        self = args[0]
        o = m.p.deref(self) if isinstance(self, Ref) else None
        if not isinstance(o, HObj) or "_atom" not in o.fields:
            return NotImplemented
        a = o.fields["_atom"]
        t, n = f(a), fl(a)
        m.p.assume(n >= 0)
        m.p.blen[id_key(t)] = n
        return SBytes([OB(t, n)])
    return h


def install(m, methods):
    """methods: {real function: tag} whose calls on atoms become abstract serialisers"""
    for fn, tag in methods.items():
        m.intrinsics[fn] = atom_serialize(tag)
