"""zn_ring: normal forms of integer terms modulo the prime group order N.

A z3 Int term built from + - * constants, `% N`, and Fermat inverses modpow_{N-2}_{N}(t) is
mapped to a sparse polynomial over Z_N whose atoms are the remaining (opaque) subterms and
inverse atoms inv[q].  Inverse atoms carry the rewrite rule  LM(q) * inv[q] -> (1 - (q - LT(q)) * inv[q]) / LC(q),
which is only used when the path condition implies q != 0 (mod N).  Equal normal forms give
syntactically identical canonical z3 terms, so uninterpreted functions of scalars (curve
x-coordinate) become equal by congruence.  (DESIGN 1.2, back end `zn_ring`.)"""
import z3

N = 0xFFFFFFFFFFFFFFFFFFFFFFFFFFFFFFFEBAAEDCE6AF48A03BBFD25E8CD0364141


class Poly:
    """dict: monomial (tuple of (atom_key, exp) sorted) -> coefficient in [1, M); M = modulus"""
    __slots__ = ("t", "M")

    def __init__(self, t=None, M=N):
        self.t = t or {}
        self.M = M

    @staticmethod
    def const(c, M=N):
        c %= M
        return Poly({(): c} if c else {}, M)

    @staticmethod
    def atom(key, M=N):
        return Poly({((key, 1),): 1}, M)

    def add(self, o):
        N = self.M
        r = dict(self.t)
        for m, c in o.t.items():
            v = (r.get(m, 0) + c) % N
            if v:
                r[m] = v
            else:
                r.pop(m, None)
        return Poly(r, N)

    def neg(self):
        N = self.M
        return Poly({m: (N - c) % N for m, c in self.t.items()}, N)

    def scale(self, k):
        N = self.M
        k %= N
        if not k:
            return Poly(None, N)
        return Poly({m: (c * k) % N for m, c in self.t.items()}, N)

    def mul(self, o):
        N = self.M
        r = {}
        for m1, c1 in self.t.items():
            for m2, c2 in o.t.items():
                m = mono_mul(m1, m2)
                v = (r.get(m, 0) + c1 * c2) % N
                if v:
                    r[m] = v
                else:
                    r.pop(m, None)
        return Poly(r, N)

    def is_zero(self):
        return not self.t

    def key(self):
        return tuple(sorted(self.t.items()))

    def lead(self):
        """leading monomial: highest total degree, then lexicographically largest"""
        return max(self.t, key=lambda m: (sum(e for _, e in m), m))


def mono_mul(a, b):
    d = dict(a)
    for k, e in b:
        d[k] = d.get(k, 0) + e
    return tuple(sorted(d.items()))


def mono_div(a, b):
    """a / b if b divides a else None"""
    d = dict(a)
    for k, e in b:
        if d.get(k, 0) < e:
            return None
        d[k] -= e
        if d[k] == 0:
            del d[k]
    return tuple(sorted(d.items()))


class Normalizer:
    def __init__(self, path, M=N):
        self.p = path
        self.M = M
        self.atoms = {}        # key -> z3 term
        self.rules = []        # (lhs monomial, replacement Poly)
        self.inv_of = {}       # poly key -> atom key of its inverse
        self.cache = {}

    def C(self, c):
        return Poly.const(c, self.M)

    def A(self, k):
        return Poly.atom(k, self.M)

    def PP(self, t=None):
        return Poly(t, self.M)

    def akey(self, t):
        N = self.M
        k = "a:" + t.sexpr()
        self.atoms.setdefault(k, t)
        return k

    def is_inv_app(self, t):
        N = self.M
        return z3.is_app(t) and t.decl().name() == "modpow_%d_%d" % (N - 2, N)

    def poly(self, t):
        N = self.M
        from .engine import TKey
        i = TKey(t)
        if i in self.cache:
            return self.cache[i]
        r = self._poly(t)
        r = self.reduce(r)
        self.cache[i] = r
        return r

    def _poly(self, t):
        N = self.M
        if z3.is_int_value(t):
            return self.C(t.as_long())
        if z3.is_app(t):
            k = t.decl().kind()
            ch = t.children()
            if k == z3.Z3_OP_ADD:
                r = self.PP()
                for c in ch:
                    r = r.add(self.poly(c))
                return r
            if k == z3.Z3_OP_SUB:
                r = self.poly(ch[0])
                for c in ch[1:]:
                    r = r.add(self.poly(c).neg())
                return r
            if k == z3.Z3_OP_UMINUS:
                return self.poly(ch[0]).neg()
            if k == z3.Z3_OP_MUL:
                r = self.C(1)
                for c in ch:
                    r = r.mul(self.poly(c))
                return r
            if k == z3.Z3_OP_MOD and z3.is_int_value(ch[1]) and ch[1].as_long() == N:
                return self.poly(ch[0])
            if t.decl().name() == "zn_inv_%d" % (N % 1000003):
                return self.poly_inverse(self.poly(ch[0]))
            if t.decl().name() == "nlmul":
                return self.poly(ch[0]).mul(self.poly(ch[1]))
            if self.is_inv_app(t):
                return self.inverse(self.poly(ch[0]), ch[0], t)
        return self.A(self.akey(t))

    def inverse(self, q, q_term, app):
        """polynomial for q^(N-2) mod N"""
        N = self.M
        if not self.p.implied(q_term % N != 0):
            return self.A(self.akey(app))           # possibly zero: stays opaque
        if len(q.t) == 1:
            (m, c), = q.t.items()
            r = self.C(pow(c, N - 2, N))
            for ak, e in m:
                r = r.mul(self.atom_inverse(ak, e))
            return r
        # q = m0 * lc * q2 with m0 the monomial content and q2 of leading coefficient 1:
        # 1/q = (1/m0) * (1/lc) * inv[q2]
        common = None
        for m in q.t:
            d = dict(m)
            common = d if common is None else {k: min(e, d.get(k, 0)) for k, e in common.items() if d.get(k, 0) > 0}
        m0 = tuple(sorted((k, e) for k, e in (common or {}).items() if e > 0))
        q1 = self.PP({mono_div(m, m0): c for m, c in q.t.items()}) if m0 else q
        lc = q1.t[q1.lead()]
        q2 = q1.scale(pow(lc, N - 2, N))
        r = self.C(pow(lc, N - 2, N)).mul(self.poly_inverse(q2))
        for ak, e in m0:
            r = r.mul(self.atom_inverse(ak, e))
        return self.reduce(r)

    def atom_inverse(self, ak, e):
        N = self.M
        if ak.startswith("i:"):
            base = self.inv_base[ak]
            r = self.C(1)
            for _ in range(e):
                r = r.mul(base)
            return r
        ik = self.poly_inverse_key(self.A(ak))
        r = self.C(1)
        for _ in range(e):
            r = r.mul(self.A(ik))
        return r

    inv_base = None

    def poly_inverse_key(self, q):
        N = self.M
        if self.inv_base is None:
            self.inv_base = {}
        qk = q.key()
        if qk in self.inv_of:
            return self.inv_of[qk]
        ik = "i:" + repr(qk)
        self.inv_of[qk] = ik
        self.inv_base[ik] = q
        lm = q.lead()
        lc = q.t[lm]
        rest = self.PP({m: c for m, c in q.t.items() if m != lm})
        lhs = mono_mul(lm, ((ik, 1),))
        # lm * t  ->  (1 - rest * t) / lc
        repl = self.C(1).add(rest.mul(self.A(ik)).neg()).scale(pow(lc, N - 2, N))
        self.rules.append((lhs, repl))
        return ik

    def poly_inverse(self, q):
        N = self.M
        return self.A(self.poly_inverse_key(q))

    def add_zero(self, q):
        """the path assumes q == 0 (mod M): use it as a rewrite rule  LM(q) -> -(q - LT(q)) / LC(q)"""
        N = self.M
        if q.is_zero():
            return
        lm = q.lead()
        lc = q.t[lm]
        if lm == ():
            return          # a non-zero constant assumed zero: the path is infeasible anyway
        rest = self.PP({m: c for m, c in q.t.items() if m != lm})
        self.rules.append((lm, rest.neg().scale(pow(lc, N - 2, N))))
        self.cache = {}

    def reduce(self, p):
        N = self.M
        if not self.rules:
            return p
        for _ in range(2000):
            hit = None
            for m, c in p.t.items():
                for lhs, repl in self.rules:
                    d = mono_div(m, lhs)
                    if d is not None:
                        hit = (m, c, d, repl)
                        break
                if hit:
                    break
            if not hit:
                return p
            m, c, d, repl = hit
            rest = self.PP({k: v for k, v in p.t.items() if k != m})
            p = rest.add(repl.mul(self.PP({d: c})))
        raise RuntimeError("zn_ring: reduction did not terminate")

    # -- back to z3
    def term_of_atom(self, ak):
        N = self.M
        if ak.startswith("a:"):
            return self.atoms[ak]
        f = z3.Function("zn_inv_%d" % (N % 1000003), z3.IntSort(), z3.IntSort())
        return f(self.term_of(self.inv_base[ak]))

    def term_of(self, p):
        N = self.M
        if p.is_zero():
            return z3.IntVal(0)
        items = sorted(p.t.items())
        if len(items) == 1 and items[0][1] == 1 and len(items[0][0]) == 1 and items[0][0][0][1] == 1 \
                and items[0][0][0][0].startswith("a:"):
            return self.atoms[items[0][0][0][0]]          # a bare atom (already reduced by its own facts)
        terms = []
        for m, c in items:
            fs = []
            for ak, e in m:
                for _ in range(e):
                    fs.append(self.term_of_atom(ak))
            from .ops import nl_product
            prod = nl_product(fs) if fs else None
            t = z3.IntVal(c) if prod is None else (prod if c == 1 else z3.IntVal(c) * prod)
            terms.append(t)
        s = terms[0]
        for t in terms[1:]:
            s = s + t
        return s % N

    def term_mod(self, p):
        """z3 term of the residue p (always of the form `... % M` or a numeral)"""
        N = self.M
        t = self.term_of(p)
        if z3.is_int_value(t):
            return t
        if z3.is_app(t) and t.decl().kind() == z3.Z3_OP_MOD:
            return t
        return t % N

    def canonical(self, t):
        """-> (poly, canonical z3 term of +-poly, sigma) with poly == sigma * canon (mod N)"""
        N = self.M
        p = self.poly(t)
        return self.canonical_poly(p)

    def canonical_poly(self, p):
        N = self.M
        if p.is_zero():
            return p, z3.IntVal(0), 1
        first = min(p.t)
        sigma = 1
        q = p
        if p.t[first] > N // 2:
            q = p.neg()
            sigma = -1
        # simplified once here so that every later z3.simplify of a term containing it is a no-op
        return p, z3.simplify(self.term_of(q)), sigma


def normalizer(path, M=N):
    d = path.__dict__.setdefault("_zn", {})
    if M not in d:
        d[M] = Normalizer(path, M)
    return d[M]
