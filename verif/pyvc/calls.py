"""calls: user functions (inline or by contract), classes, builtins (A-BUILTIN table)."""
import ast
import builtins
import hashlib
import hmac as _hmac
import inspect
import io
import types

import z3

from .values import *  # noqa
from .engine import (Undecided, PyExc, PathEnd, _Return, ExcVal, SRC, I, id_key)
from .interp import Frame, SuperProxy

HASH_LEN = {"sha256": 32, "sha1": 20, "sha512": 64, "ripemd160": 20, "md5": 16}
_uf_cache = {}


def UF(name, *sorts):
    k = (name,) + tuple(str(s) for s in sorts)
    if k not in _uf_cache:
        _uf_cache[k] = z3.Function(name, *sorts)
    return _uf_cache[k]


class HashObj:
    def __init__(self, alg, data=b"", key=None):
        self.alg, self.data, self.key = alg, data, key


class CallMixin:
    # ------------------------------------------------------------------ dispatcher
    def call(self, f, args, kwargs, node=None):
        if getattr(f, "_pyvc_native", False):
            return f(self, *args, **kwargs)
        if isinstance(f, BoundMethod):
            return self.call(f.fn, [f.self_val] + list(args), kwargs, node)
        if isinstance(f, types.MethodType):
            return self.call(f.__func__, [self.import_value(f.__self__)] + list(args), kwargs, node)
        if isinstance(f, BuiltinMethod):
            return self.call_method(f.self_val, f.name, args, kwargs)
        if isinstance(f, Closure):
            return self.call_closure(f, args, kwargs)
        if isinstance(f, types.FunctionType):
            if f.__module__ == "copy" and f.__name__ == "copy":
                return self.call_builtin(f, args, kwargs)       # standard-library model, see call_builtin
            return self.call_function(f, args, kwargs)
        if isinstance(f, type):
            return self.instantiate(f, args, kwargs)
        if callable(f):
            return self.call_builtin(f, args, kwargs)
        raise PyExc(TypeError)

    def bind(self, fn_node, args, kwargs, defaults, kwdefaults):
        a = fn_node.args
        env = {}
        params = [x.arg for x in a.posonlyargs + a.args]
        args = list(args)
        if len(args) > len(params) and not a.vararg:
            raise PyExc(TypeError)
        for nme, v in zip(params, args):
            env[nme] = v
        if a.vararg:
            env[a.vararg.arg] = tuple(args[len(params):])
        kwargs = dict(kwargs)
        for nme in params[len(args):]:
            if nme in kwargs:
                env[nme] = kwargs.pop(nme)
        nd = len(defaults or ())
        for i, nme in enumerate(params):
            if nme not in env:
                j = i - (len(params) - nd)
                if j >= 0:
                    env[nme] = defaults[j]
                else:
                    raise PyExc(TypeError)
        for x in a.kwonlyargs:
            if x.arg in kwargs:
                env[x.arg] = kwargs.pop(x.arg)
            elif kwdefaults and x.arg in kwdefaults:
                env[x.arg] = kwdefaults[x.arg]
            else:
                raise PyExc(TypeError)
        if a.kwarg:
            env[a.kwarg.arg] = self.p.alloc(HDict(list(kwargs.items())))
        elif kwargs:
            raise PyExc(TypeError)
        return env

    def call_closure(self, c, args, kwargs):
        n = c.node
        defaults = [self.eval(d, Frame(c.env, c.glob)) for d in n.args.defaults]
        env = dict(c.env)
        env.update(self.bind(n, args, kwargs, defaults, None))
        fr = Frame(env, c.glob, None, c.name)
        if isinstance(n, ast.Lambda):
            return self.eval(n.body, fr)
        fr.fnode = n
        try:
            self.exec_block(n.body, fr)
        except _Return as r:
            return r.v
        return None

    def call_function(self, fn, args, kwargs):
        fn = inspect.unwrap(fn)
        h = self.intrinsics.get(fn)
        if h is not None:
            r = h(self, args, kwargs)
            if r is not NotImplemented:
                return r
        rec = getattr(fn, "_pyvc_rec", None)
        if rec is not None:
            r = self.call_recursive(fn, rec, args, kwargs)
            if r is not NotImplemented:
                return r
        if self.reg is not None:
            c = self.reg.call_contract(fn, self)
            if c is not None:
                return self.apply_contract(c, fn, args, kwargs)
        return self.inline_function(fn, args, kwargs)

    def inline_function(self, fn, args, kwargs):
        if len(self.call_stack) >= self.MAX_INLINE_DEPTH:
            raise Undecided("inline depth exceeded at %s" % fn.__qualname__)
        node = SRC.lookup(fn)
        defaults = [self.import_value(d) for d in (fn.__defaults__ or ())]
        kwd = {k: self.import_value(v) for k, v in (fn.__kwdefaults__ or {}).items()}
        env = self.bind(node, args, kwargs, defaults, kwd)
        cls = None
        if "." in fn.__qualname__ and "<locals>" not in fn.__qualname__:
            mod = inspect.getmodule(fn)
            cls = mod
            for part in fn.__qualname__.split(".")[:-1]:
                cls = getattr(cls, part)
        fr = Frame(env, fn.__globals__, fn, fn.__module__ + "." + fn.__qualname__, cls)
        fr.fnode = node
        self.call_stack.append(fn)
        try:
            self.exec_block(node.body, fr)
        except _Return as r:
            return r.v
        finally:
            self.call_stack.pop()
        return None

    # ------------------------------------------------------------------ recursive spec functions
    def call_recursive(self, fn, rec, args, kwargs):
        """bounded unfolding of a recursively defined spec function (sound: every unfolding is the
        definition; the opaque remainder is an uninterpreted application of the same arguments)"""
        ints = [a for a in args if self.is_int(a) or isinstance(a, SBool)]
        symlen = any(isinstance(a, Ref) and isinstance(self.p.deref(a), HList) and self.p.deref(a).pre is not None for a in args)
        if not symlen and ((ints and all(not isinstance(a, Sym) for a in ints)) or all(not isinstance(a, (Sym, Ref)) for a in args)):
            return NotImplemented                   # concrete recursion indices over concrete-length data: plain execution
        depth = self.rec_fuel.get(fn, 0)
        level = rec["fuel"] - depth
        if level >= 2:
            self.rec_fuel[fn] = depth + 1
            try:
                return self.inline_function(fn, args, kwargs)
            finally:
                self.rec_fuel[fn] = depth
        app = self.opaque_app(fn, rec, args)
        if level == 1:
            self.rec_fuel[fn] = depth + 1
            try:
                v = self.inline_function(fn, args, kwargs)
            finally:
                self.rec_fuel[fn] = depth
            eq = self.truth(self.compare_vals("Eq", app, v))
            if eq is False:
                raise PathEnd()
            if eq is not True:
                self.p.assume(eq.t)
            if isinstance(v, bytes) and len(v) == 0 and is_bytes(app):
                # the application is the empty string on this path: say so in the byte theory too (unit of b_cat; the
                # equation above only fixed its length)
                for ch in as_chunks(app):
                    if isinstance(ch, OB):
                        self.p.assume(ch.t == B_empty)
            if isinstance(v, (bytes, int, bool)):
                return v                # base case of the recursion on this path: the concrete value says more than the application
        return app

    def opaque_app(self, fn, rec, args):
        sorts, terms, tag = [], [], [fn.__module__.split(".")[-1] + "." + fn.__qualname__]
        for a in args:
            if isinstance(a, SBool) or isinstance(a, bool):
                terms.append(self.bt(a))
            elif self.is_int(a):
                terms.append(self.it(a))
            elif is_bytes(a):
                terms.append(bytes_to_B(a))
            elif isinstance(a, Ref) and isinstance(self.p.deref(a), HList) and self.p.deref(a).pre is not None \
                    and not self.p.deref(a).items:
                terms.append(self.p.deref(a).pre[0])
                tag.append("len%s" % self.p.deref(a).pre[1].sexpr())
            elif isinstance(a, (str, type(None))) or callable(a):
                tag.append(getattr(a, "__qualname__", repr(a)))
            else:
                raise Undecided("recursive spec function %s: unsupported argument %r" % (fn.__qualname__, a))
        ret = rec["returns"]
        rsort = z3.IntSort() if ret.startswith("int") else {"bool": z3.BoolSort()}.get(ret, BSort)
        f = UF("rec_" + "|".join(tag), *([t.sort() for t in terms] + [rsort]))
        t = f(*terms)
        if ret == "int":
            return SInt(t)
        if ret.startswith("int:"):
            # non-negative integer below 2**bits (usable in bit-vector mode as an exact value)
            bits = int(ret[4:])
            self.p.assume(z3.And(t >= 0, t < (1 << bits)))
            return self.int_from_term(t, bits)
        if ret == "bool":
            return SBool(t)
        if ret.startswith("bytes:"):
            n = int(ret[6:])
            self.p.blen[id_key(t)] = n
            return SBytes([OB(t, n)])
        lf = UF("reclen_" + "|".join(tag), *([x.sort() for x in terms] + [z3.IntSort()]))
        n = lf(*terms)
        self.p.assume(n >= 0)
        self.p.blen[id_key(t)] = n
        return SBytes([OB(t, n)])

    # ------------------------------------------------------------------ classes
    def instantiate(self, cls, args, kwargs):
        if issubclass(cls, BaseException):
            return ExcVal(cls, tuple(args))
        import struct as _struct
        if cls is _struct.Struct and all(isinstance(a, str) for a in args):
            return _struct.Struct(*args)
        if cls is io.BytesIO:
            data = args[0] if args else b""
            if isinstance(data, Ref) and isinstance(self.p.deref(data), HByteArray):
                data = self.p.deref(data).val
            return self.p.alloc(HStream(as_chunks(data)))
        if cls.__module__ == "builtins" or cls in (types.FunctionType,):
            return self.call_builtin(cls, args, kwargs)
        h = self.intrinsics.get(cls)
        if h is not None:
            return h(self, args, kwargs)
        new = None
        for c in cls.__mro__:
            if c in (object, int):
                break
            if "__new__" in vars(c):
                new = vars(c)["__new__"]
                break
        if new is not None:
            fn = new.__func__ if isinstance(new, staticmethod) else new
            return self.call_function(fn, [cls] + list(args), kwargs)
        if issubclass(cls, int):
            return TInt(cls, self.b_int(args, kwargs))
        r = self.p.alloc(HObj(cls, {}))
        init = inspect.getattr_static(cls, "__init__", None)
        if isinstance(init, types.FunctionType):
            self.call_function(init, [r] + list(args), kwargs)
        elif args or kwargs:
            raise PyExc(TypeError)
        return r

    # ------------------------------------------------------------------ fresh symbolic values
    def make_sym(self, name, kind):
        """kinds: int, nat, bool, byte, bytes, bytes:N, ('int', lo, hi)"""
        p = self.p
        if isinstance(kind, tuple) and kind[0] == "int":
            t = p.fresh(name)
            p.assume(z3.And(t >= kind[1], t <= kind[2]))
            return self.wrap_int_term(t, kind[2].bit_length() if kind[1] >= 0 else None)
        if isinstance(kind, tuple) and kind[0] == "const_cls":
            from .verifier import resolve
            return resolve(kind[1])
        if isinstance(kind, tuple) and kind[0] == "const":
            return self.import_value(kind[1])
        if isinstance(kind, tuple) and kind[0] == "choice":
            opts = list(kind[1])
            t = p.fresh(name + "_choice")
            p.assume(z3.And(t >= 0, t < len(opts)))
            return self.import_value(opts[p.concretize(t)])
        if isinstance(kind, tuple) and kind[0] == "bytes":
            # ("bytes", lo, hi): symbolic length within [lo, hi]
            t = p.fresh(name, BSort)
            n = p.fresh(name + "_len")
            p.assume(z3.And(n >= kind[1], n <= kind[2]))
            p.blen[id_key(t)] = n
            p.__dict__.setdefault("len_terms", []).append(n)
            return SBytes([OB(t, n)])
        if kind == "int":
            if self.bv is not None:
                raise Undecided("unbounded int in bv mode (give a range)")
            return SInt(p.fresh(name))
        if kind == "nat":
            t = p.fresh(name)
            p.assume(t >= 0)
            return self.wrap_int_term(t, None)
        if kind == "byte":
            t = p.fresh(name)
            p.assume(z3.And(t >= 0, t <= 255))
            return self.wrap_int_term(t, 8)
        if kind == "bool":
            return SBool(p.fresh(name, z3.BoolSort()))
        if kind == "bytes":
            t = p.fresh(name, BSort)
            n = p.fresh(name + "_len")
            p.assume(n >= 0)
            p.blen[id_key(t)] = n
            p.__dict__.setdefault("len_terms", []).append(n)
            return SBytes([OB(t, n)])
        if isinstance(kind, str) and kind.startswith("bytes:"):
            k = int(kind[6:])
            if k == 0:
                return b""
            t = p.fresh(name, BSort)
            p.blen[id_key(t)] = k
            return SBytes([OB(t, k)])
        if kind == "bytearray":
            return p.alloc(HByteArray(self.make_sym(name, "bytes")))
        if callable(kind):
            return kind(self, name)
        raise Undecided("unknown symbolic kind %r" % (kind,))

    def wrap_int_term(self, t, bits):
        if self.bv is None:
            return SInt(t)
        if bits is None:
            raise Undecided("bv mode needs a bounded integer")
        # bits > W: an *inexact* value (low W bits of the true value, true value < 2**bits); only operations
        # that are homomorphic on low bits may consume it (bv_exact refuses everything else)
        return SBV(z3.Int2BV(t, self.bv), bits)

    # ------------------------------------------------------------------ contract language
    def eval_spec(self, expr, fr):
        node = self.reg.parse(expr) if self.reg is not None else ast.parse(expr, mode="eval").body
        return self.eval(node, fr)

    def spec_frame(self, fr):
        return fr

    def assume_all(self, exprs, fr):
        for e in exprs:
            try:
                v = self.truth(self.eval_spec(e, fr))
            except PyExc as ex:
                if ex.cls is NameError:
                    raise Undecided("assumed clause refers to a name the function does not define (sidecar out of date?): " + e)
                raise PathEnd()
            if v is True:
                continue
            if v is False:
                raise PathEnd()
            self.p.assume(v.t)
        if self.p.check() == z3.unsat:
            raise PathEnd()

    def prove_all(self, exprs, fr, tag):
        for i, e in enumerate(exprs):
            name = "%s/%d" % (tag, i + 1)
            try:
                v = self.truth(self.eval_spec(e, fr))
            except PyExc as ex:
                if ex.cls is NameError:
                    # the sidecar text names a local/attribute the code no longer has (e.g. a renamed accumulator):
                    # the contract is out of date, which says nothing about the property
                    self.report(name, "unknown", e, note="contract expression refers to a name the function does not define (sidecar out of date?)")
                    continue
                self.report(name, "fail", e, note="contract expression raises %s" % ex.cls.__name__)
                continue
            self.prove(name, v, e)

    def prove(self, name, v, text=""):
        if v is True:
            return self.report(name, "ok", text)
        import time
        if v is False:
            r = self.p.check()
            if r == z3.sat:
                return self.report(name, "fail", text, model=self.p.solver.model())
            if r == z3.unsat:
                return self.report(name, "ok", text, note="path infeasible")
            return self.report(name, "unknown", text, note="clause false on a path whose feasibility is unknown: " + self.p.solver.reason_unknown())
        t0 = time.time()
        r = self.p.check(z3.Not(v.t))
        if r == z3.unsat:
            return self.report(name, "ok", text, secs=time.time() - t0)
        if r == z3.sat:
            model = self.p.solver.model()
            small = [n <= 40 for n in self.p.__dict__.get("len_terms", [])]
            if small and self.p.check(z3.Not(v.t), *small) == z3.sat:
                model = self.p.solver.model()      # prefer a counterexample with short byte strings
            return self.report(name, "fail", text, model=model, secs=time.time() - t0)
        return self.report(name, "unknown", text, note=self.p.solver.reason_unknown(), secs=time.time() - t0)

    def report(self, name, status, text, model=None, note=None, secs=0.0):
        if self.on_obligation is not None:
            self.on_obligation(self, name, status, text, model, note, secs)

    # ------------------------------------------------------------------ contracts at call sites
    def apply_contract(self, c, fn, args, kwargs):
        node = SRC.lookup(fn)
        defaults = [self.import_value(d) for d in (fn.__defaults__ or ())]
        kwd = {k: self.import_value(v) for k, v in (fn.__kwdefaults__ or {}).items()}
        env = self.bind(node, args, kwargs, defaults, kwd)
        env["spec"] = self.reg.spec_module
        from .verifier import make_native_env
        env.update(make_native_env(self))
        fr = Frame(env, self.reg.spec_globals, None, "<contract %s>" % c.name)
        caller = self.call_stack[-1].__qualname__ if self.call_stack else "<top>"
        self.prove_all(c.call_requires, fr, "call:%s@%s" % (c.short, caller))
        for exc_name, cond in c.raises.items():
            if self.cond(self.eval_spec(cond, fr)):
                raise PyExc(self.reg.exc_class(exc_name))
        for target, kind in c.modifies.items():
            self.havoc_target(target, kind, fr)
        if getattr(c, "returns_expr", None):
            # the contract pins the result to a spec term: use that term itself (no fresh symbol)
            res = self.eval_spec(c.returns_expr, fr)
        else:
            res = c.result_maker(self, fr) if c.result_maker else (self.make_sym("ret_" + c.short, c.returns) if c.returns else None)
        fr.env["result"] = res
        old_outcome = self.outcome
        self.outcome = ("return", res)
        try:
            self.assume_all(c.ensures, fr)
        finally:
            self.outcome = old_outcome
        return res

    def havoc_target(self, target, kind, fr):
        raise Undecided("modifies at call site not supported yet: %s" % target)

    # ------------------------------------------------------------------ hashing (uninterpreted)
    def hash_bytes(self, alg, data, key=None):
        ln = HASH_LEN[alg]
        if isinstance(data, bytes) and (key is None or isinstance(key, bytes)):
            if key is None:
                return hashlib.new(alg, data).digest()
            return _hmac.new(key, data, alg).digest()
        if key is None:
            f = UF("H_" + alg, BSort, BSort)
            t = f(bytes_to_B(data))
        else:
            f = UF("HMAC_" + alg, BSort, BSort, BSort)
            t = f(bytes_to_B(key), bytes_to_B(data))
        self.p.blen[id_key(t)] = ln
        return SBytes([OB(t, ln)])

    # ------------------------------------------------------------------ builtin functions
    def call_builtin(self, f, args, kwargs):
        name = getattr(f, "__name__", None)
        mod = getattr(f, "__module__", None)
        qn = getattr(f, "__qualname__", name)
        # pure library functions on concrete arguments are simply evaluated (math.log, math.ceil, b64decode ...)
        if mod in ("math", "binascii", "base64", "zlib") and not any(isinstance(x, (Sym, Ref)) for x in list(args) + list(kwargs.values())):
            try:
                return self.import_value(f(*args, **kwargs))
            except Exception as e:      # the library's own error for these arguments
                raise PyExc(type(e))
        # copy.copy: shallow copy of an instance without __copy__ (same class, same attribute values), of a list, or of a value
        if mod == "copy" and name == "copy" and len(args) == 1 and not kwargs:
            a = args[0]
            if isinstance(a, Ref):
                o = self.p.deref(a)
                if isinstance(o, HObj) and inspect.getattr_static(o.cls, "__copy__", None) is None \
                        and inspect.getattr_static(o.cls, "__reduce_ex__", None) is object.__reduce_ex__ \
                        and inspect.getattr_static(o.cls, "__slots__", None) is None:
                    return self.p.alloc(HObj(o.cls, dict(o.fields)))
                if isinstance(o, HList) and o.pre is None:
                    return self.p.alloc(HList(list(o.items)))
                raise Undecided("copy.copy of %s" % type(o).__name__)
            return a
        # hashlib / hmac
        if name and name.startswith("openssl_"):
            alg = name[len("openssl_"):]
            return self.p.alloc(HObj(HashObj, {"alg": alg, "data": args[0] if args else b"", "key": None}))
        if f is hashlib.new:
            alg = args[0]
            return self.p.alloc(HObj(HashObj, {"alg": alg, "data": args[1] if len(args) > 1 else kwargs.get("data", b""), "key": None}))
        if f is _hmac.new or f is _hmac.HMAC:
            key = kwargs.get("key", args[0] if args else None)
            msg = kwargs.get("msg", args[1] if len(args) > 1 else b"")
            dm = kwargs.get("digestmod", args[2] if len(args) > 2 else None)
            if msg is None:
                msg = b""
            alg = dm if isinstance(dm, str) else getattr(dm, "__name__", "").replace("openssl_", "")
            if alg not in HASH_LEN:
                raise Undecided("hmac digestmod %r" % (dm,))
            return self.p.alloc(HObj(HashObj, {"alg": alg, "data": msg, "key": key}))
        if f is hashlib.pbkdf2_hmac:
            alg, pw, salt, iters = args[:4]
            dklen = args[4] if len(args) > 4 else kwargs.get("dklen")
            if all(isinstance(x, (bytes, int, str)) or x is None for x in (alg, pw, salt, iters, dklen)):
                return hashlib.pbkdf2_hmac(alg, pw, salt, iters, dklen)
            n = dklen if dklen is not None else HASH_LEN[alg]
            if not isinstance(n, int) or not isinstance(iters, int):
                raise Undecided("pbkdf2 symbolic parameters")
            t = UF("PBKDF2_%s_%d_%d" % (alg, iters, n), BSort, BSort, BSort)(bytes_to_B(pw), bytes_to_B(salt))
            self.p.blen[id_key(t)] = n
            return SBytes([OB(t, n)])
        h = getattr(self, "b_" + str(name), None)
        if h is not None and (mod in ("builtins", None, "math", "_struct", "binascii", "base64", "itertools", "_operator", "secrets", "random", "time") or f in (int.from_bytes, bytes.fromhex)):
            return h(args, kwargs)
        raise Undecided("builtin %s.%s" % (mod, qn))

    def b_len(self, a, k):
        n = self.length(a[0])
        if self.bv is not None and isinstance(n, SInt):
            # bit-vector mode: a symbolic length becomes an exact value when the path bounds it below 2**bits
            for bits in (8, 16, 24, self.bv - 4, self.bv - 1, self.bv):
                if 0 < bits <= self.bv and self.p.implied(z3.And(n.t >= 0, n.t < (1 << bits))):
                    return self.int_from_term(n.t, bits)
            raise Undecided("bv: length not bounded by the word size")
        return n

    def b_print(self, a, k):
        return None

    def b_range(self, a, k):
        if all(isinstance(x, int) for x in a):
            return range(*a)
        # symbolic: concretise the count (only reached outside for-statements)
        vals = [x if isinstance(x, int) else self.p.concretize(self.it(x), limit=self.MAX_UNROLL) for x in a]
        return range(*vals)

    def b_int(self, a, k):
        if not a:
            return 0
        v = a[0]
        if isinstance(v, TInt):
            return v.val
        if isinstance(v, (bool,)):
            return int(v)
        if isinstance(v, SBool):
            return self.mkint(self.it(v)) if self.bv is None else self.mkbv(z3.If(v.t, z3.BitVecVal(1, self.bv), z3.BitVecVal(0, self.bv)), 1)
        if self.is_int(v):
            return v
        if isinstance(v, (str, bytes)):
            base = a[1] if len(a) > 1 else k.get("base", 10)
            try:
                return int(v, base)
            except ValueError:
                raise PyExc(ValueError)
        if isinstance(v, float):
            return int(v)
        if isinstance(v, tuple) and v and v[0] == "$hex":
            # int(b.hex(), 16)
            if len(a) > 1 and a[1] == 16:
                if self.cond(self.compare_vals("Eq", self.length(v[1]), 0)):
                    raise PyExc(ValueError)
                return self.int_from_bytes(v[1], "big")
        raise Undecided("int(%r)" % (v,))

    def b_bool(self, a, k):
        if not a:
            return False
        return self.truth(a[0])

    def b_bytes(self, a, k):
        if not a:
            return b""
        v = a[0]
        if is_bytes(v):
            return v
        if isinstance(v, int) and not isinstance(v, bool):
            return bytes(v)
        if isinstance(v, (SInt, SBV)):
            n = self.p.concretize(self.it(v))
            return bytes(n)
        if isinstance(v, Ref) and isinstance(self.p.deref(v), HByteArray):
            return self.p.deref(v).val
        if isinstance(v, str):
            return bytes(v, *a[1:])
        items = self.iterate(v)
        out = []
        for x in items:
            if isinstance(x, bool) or not self.is_int(x):
                if isinstance(x, bool):
                    x = int(x)
                else:
                    raise PyExc(TypeError)
            if isinstance(x, int):
                if not 0 <= x <= 255:
                    raise PyExc(ValueError)
                out.append(bytes([x]))
            else:
                t = self.it(x)
                if not self.p.branch(z3.And(t >= 0, t <= 255)):
                    raise PyExc(ValueError)
                out.append(IB(t, 1, "little"))
        return mk_bytes(out)

    def b_bytearray(self, a, k):
        if not a:
            return self.p.alloc(HByteArray(b""))
        return self.p.alloc(HByteArray(self.b_bytes(a, k)))

    def b_str(self, a, k):
        if not a:
            return ""
        v = a[0]
        if isinstance(v, TInt) and not isinstance(v.val, Sym):
            v = v.val
        if isinstance(v, (Sym, Ref)):
            return SMsg()           # text of a symbolic value: not modelled (values.SMsg), never a made-up string
        return str(v)

    def b_repr(self, a, k):
        return SMsg() if isinstance(a[0], (Sym, Ref)) else repr(a[0])

    def b_hex(self, a, k):
        if isinstance(a[0], int):
            return hex(a[0])
        return SMsg()

    def b_format(self, a, k):
        if any(isinstance(x, (Sym, Ref)) for x in a):
            return SMsg()
        try:
            return format(*a)
        except (TypeError, ValueError) as e:
            raise PyExc(type(e))

    def b_list(self, a, k):
        return self.p.alloc(HList(self.iterate(a[0]) if a else []))

    def b_tuple(self, a, k):
        return tuple(self.iterate(a[0])) if a else ()

    def b_set(self, a, k):
        items = self.dedupe(self.iterate(a[0])) if a else []
        return self.p.alloc(HList(items))      # duplicate-free heap list: add/pop/remove work

    b_frozenset = b_set

    def b_dict(self, a, k):
        items = []
        if a:
            v = a[0]
            if isinstance(v, dict) or (isinstance(v, Ref) and isinstance(self.p.deref(v), HDict)):
                items = self.dict_items(v)
            else:
                items = [tuple(self.iterate(x)) for x in self.iterate(v)]
        items += list(k.items())
        return self.p.alloc(HDict(items))

    def b_isinstance(self, a, k):
        v, t = a
        ts = t if isinstance(t, tuple) else (t,)
        c = self.cls_of(v)
        return any(issubclass(c, x) for x in ts)

    def b_issubclass(self, a, k):
        return issubclass(a[0], a[1])

    def b_type(self, a, k):
        return self.cls_of(a[0])

    def b_callable(self, a, k):
        return isinstance(a[0], (types.FunctionType, Closure, BoundMethod, type, BuiltinMethod))

    def b_id(self, a, k):
        if isinstance(a[0], Ref):
            return a[0].id
        raise Undecided("id()")

    def b_getattr(self, a, k):
        try:
            return self.getattr(a[0], a[1])
        except PyExc as e:
            if len(a) > 2 and e.cls is AttributeError:
                return a[2]
            raise

    def b_hasattr(self, a, k):
        try:
            self.getattr(a[0], a[1])
            return True
        except PyExc as e:
            if e.cls is AttributeError:
                return False
            raise

    def b_setattr(self, a, k):
        self.setattr(a[0], a[1], a[2])

    def b_abs(self, a, k):
        v = a[0]
        if isinstance(v, int):
            return abs(v)
        if self.bv is not None:
            return v
        t = self.it(v)
        return self.mkint(z3.If(t >= 0, t, -t))

    def b_min(self, a, k):
        return self._minmax(a, k, "Lt")

    def b_max(self, a, k):
        return self._minmax(a, k, "Gt")

    def _minmax(self, a, k, opn):
        items = list(a) if len(a) > 1 else self.iterate(a[0])
        if not items:
            if "default" in k:
                return k["default"]
            raise PyExc(ValueError)
        keyf = k.get("key")
        best = items[0]
        bk = self.call(keyf, [best], {}) if keyf else best
        for x in items[1:]:
            xk = self.call(keyf, [x], {}) if keyf else x
            if self.cond(self.compare_vals(opn, xk, bk)):
                best, bk = x, xk
        return best

    def b_sum(self, a, k):
        acc = a[1] if len(a) > 1 else 0
        for x in self.iterate(a[0]):
            acc = self.binop(ast.Add(), acc, x)
        return acc

    def b_divmod(self, a, k):
        return (self.binop(ast.FloorDiv(), a[0], a[1]), self.binop(ast.Mod(), a[0], a[1]))

    def b_pow(self, a, k):
        if len(a) == 2:
            return self.binop(ast.Pow(), a[0], a[1])
        b, e, m = a
        if all(isinstance(x, int) for x in a):
            try:
                return pow(b, e, m)
            except ValueError:
                raise PyExc(ValueError)
        if not isinstance(m, int) or not isinstance(e, int) or m <= 0:
            raise Undecided("pow with symbolic modulus/exponent")
        return self.modpow(b, e, m)

    def modpow(self, b, e, m):
        """pow(b, e, m), m > 0 concrete, e concrete: uninterpreted with range axiom; the theory
        layer (theories.py) adds Fermat-inverse facts when e == m - 2 and m is a known prime."""
        if e < 0:
            raise Undecided("negative modular exponent")
        tb = self.it(b)
        if e <= 4:
            if e == 0:
                return 1 % m
            r = b
            for _ in range(e - 1):
                r = self.binop(ast.Mult(), r, b)
            return self.binop(ast.Mod(), r, m)
        f = UF("modpow_%d_%d" % (e, m), z3.IntSort(), z3.IntSort())
        t = f(tb % m)
        self.p.assume(z3.And(t >= 0, t < m))
        for hook in self.modpow_hooks:
            hook(self, tb, e, m, t)
        return SInt(t)

    def b_enumerate(self, a, k):
        start = a[1] if len(a) > 1 else k.get("start", 0)
        return [(start + i, x) for i, x in enumerate(self.iterate(a[0]))]

    def b_zip(self, a, k):
        cols = [self.iterate(x) for x in a]
        return list(zip(*cols))

    def b_reversed(self, a, k):
        return list(reversed(self.iterate(a[0])))

    def b_iter(self, a, k):
        return self.p.alloc(HList(self.iterate(a[0])))

    def b_next(self, a, k):
        o = self.p.deref(a[0])
        if not o.items:
            raise PyExc(StopIteration)
        return o.items.pop(0)

    def b_sorted(self, a, k):
        items = self.iterate(a[0])
        keyf = k.get("key")
        rev = k.get("reverse", False)
        keyed = [(self.call(keyf, [x], {}) if keyf else x, x) for x in items]
        # insertion sort with symbolic comparisons (forks on every undetermined comparison)
        out = []
        for kx, x in keyed:
            i = len(out)
            while i > 0 and self.cond(self.compare_vals("Lt", kx, out[i - 1][0])):
                i -= 1
            out.insert(i, (kx, x))
        res = [x for _, x in out]
        if rev:
            res.reverse()
        return self.p.alloc(HList(res))

    def b_any(self, a, k):
        for x in self.iterate(a[0]):
            if self.cond(x):
                return True
        return False

    def b_all(self, a, k):
        for x in self.iterate(a[0]):
            if not self.cond(x):
                return False
        return True

    def b_ord(self, a, k):
        return ord(a[0])

    def b_chr(self, a, k):
        if isinstance(a[0], int):
            return chr(a[0])
        raise Undecided("chr of symbolic")

    def b_round(self, a, k):
        if all(isinstance(x, (int, float)) for x in a):
            return round(*a)
        raise Undecided("round of symbolic")

    def b_ceil(self, a, k):
        import math
        if isinstance(a[0], (int, float)):
            return math.ceil(a[0])
        raise Undecided("ceil of symbolic")

    def b_from_bytes(self, a, k):
        end = a[1] if len(a) > 1 else k.get("byteorder", "big")
        if k.get("signed"):
            raise Undecided("from_bytes signed")
        v = a[0]
        if isinstance(v, Ref) and isinstance(self.p.deref(v), HByteArray):
            v = self.p.deref(v).val
        if isinstance(v, bytes):
            return int.from_bytes(v, end)
        return self.int_from_bytes(v, end)

    def b_fromhex(self, a, k):
        if isinstance(a[0], str):
            try:
                return bytes.fromhex(a[0])
            except ValueError:
                raise PyExc(ValueError)
        if isinstance(a[0], tuple) and a[0][0] == "$hex":
            return a[0][1]
        raise Undecided("fromhex of symbolic")

    def b_pack(self, a, k):
        """struct.pack for fixed-size integer formats"""
        fmt = a[0]
        if not isinstance(fmt, str):
            raise Undecided("struct.pack with symbolic format")
        end = "little"
        if fmt and fmt[0] in "<>!=@":
            end = "little" if fmt[0] in "<" else "big" if fmt[0] in ">!" else __import__("sys").byteorder
            codes = fmt[1:]
        else:
            codes = fmt
        size = {"B": 1, "H": 2, "L": 4, "I": 4, "Q": 8}
        vals = list(a[1:])
        out = []
        if len(codes) != len(vals) or any(c not in size for c in codes):
            raise Undecided("struct.pack format %r" % fmt)
        for c, v in zip(codes, vals):
            try:
                out += as_chunks(self.int_to_bytes(v, size[c], end))
            except PyExc:
                import struct
                raise PyExc(struct.error)
        return mk_bytes(out)

    def b_randbits(self, a, k):
        n = a[0]
        t = self.p.fresh("randbits")
        self.p.assume(z3.And(t >= 0, t < (1 << n)))
        return SInt(t)

    def b_randbelow(self, a, k):
        t = self.p.fresh("randbelow")
        self.p.assume(z3.And(t >= 0, t < self.it(a[0])))
        return SInt(t)

    def b_randint(self, a, k):
        t = self.p.fresh("randint")
        self.p.assume(z3.And(t >= self.it(a[0]), t <= self.it(a[1])))
        return SInt(t)

    def b_time(self, a, k):
        # time.time(): an arbitrary non-negative instant (the fractional part is dropped: every
        # use in the analysed code is int(time.time()))
        t = self.p.fresh("time")
        self.p.assume(z3.And(t >= 0, t < 2**63))
        return SInt(t)

    def b_getrandbits(self, a, k):
        return self.b_randbits(a, k)

    # ------------------------------------------------------------------ builtin methods
    def struct_method(self, st, name, args, kwargs):
        """struct.Struct(fmt) objects with fixed-size integer formats"""
        fmt = st.format
        end = "little" if fmt[:1] == "<" else "big" if fmt[:1] in ">!" else __import__("sys").byteorder
        codes = fmt[1:] if fmt[:1] in "<>!=@" else fmt
        size = {"B": 1, "H": 2, "L": 4, "I": 4, "Q": 8}
        if any(c not in size for c in codes):
            raise Undecided("struct format %r" % fmt)
        total = sum(size[c] for c in codes)
        if name == "size":
            return total
        if name == "pack":
            return self.b_pack([fmt] + list(args), {})
        if name in ("unpack", "unpack_from"):
            data = args[0]
            if isinstance(data, Ref) and isinstance(self.p.deref(data), HByteArray):
                data = self.p.deref(data).val
            off = (args[1] if len(args) > 1 else kwargs.get("offset", 0)) if name == "unpack_from" else 0
            if name == "unpack" and not self.cond(self.compare_vals("Eq", self.length(data), total)):
                import struct
                raise PyExc(struct.error)
            out = []
            for c in codes:
                piece = self.slice_of(data, off, self.binop(ast.Add(), off, size[c]), None)
                if not self.cond(self.compare_vals("Eq", self.length(piece), size[c])):
                    import struct
                    raise PyExc(struct.error)
                out.append(self.int_from_bytes(piece, end) if not isinstance(piece, bytes) else int.from_bytes(piece, end))
                off = self.binop(ast.Add(), off, size[c])
            return tuple(out)
        raise Undecided("struct method " + name)

    def call_method(self, v, name, args, kwargs):
        import struct as _struct
        if isinstance(v, _struct.Struct):
            return self.struct_method(v, name, args, kwargs)
        if isinstance(v, TInt):
            v = v.val
        if isinstance(v, Ref):
            o = self.p.deref(v)
            if isinstance(o, HList):
                return self.list_method(v, o, name, args, kwargs)
            if isinstance(o, HDict):
                return self.dict_method(v, o, name, args, kwargs)
            if isinstance(o, HStream):
                return self.stream_method(o, name, args, kwargs)
            if isinstance(o, HObj) and o.cls is HashObj:
                return self.hash_method(v, o, name, args, kwargs)
            if isinstance(o, HByteArray):
                if name == "append":
                    x = args[0]
                    if isinstance(x, int):
                        if not 0 <= x <= 255:
                            raise PyExc(ValueError)
                        piece = bytes([x])
                    else:
                        t = self.it(x)
                        if not self.p.branch(z3.And(t >= 0, t <= 255)):
                            raise PyExc(ValueError)
                        piece = IB(t, 1, "little")
                    o.val = mk_bytes(as_chunks(o.val) + [piece])
                    return None
                if name == "extend":
                    x = args[0]
                    if isinstance(x, Ref):
                        x = self.p.deref(x).val
                    o.val = mk_bytes(as_chunks(o.val) + as_chunks(x))
                    return None
                return self.bytes_method(o.val, name, args, kwargs)
        if isinstance(v, HObj) and v.cls is HashObj:
            pass
        if is_bytes(v):
            return self.bytes_method(v, name, args, kwargs)
        if isinstance(v, str):
            return self.str_method(v, name, args, kwargs)
        if self.is_int(v):
            if name == "to_bytes":
                length = args[0] if args else kwargs.get("length", 1)
                end = args[1] if len(args) > 1 else kwargs.get("byteorder", "big")
                return self.int_to_bytes(v, length, end, kwargs.get("signed", False))
            if name == "bit_length":
                if isinstance(v, int):
                    return v.bit_length()
                raise Undecided("bit_length of symbolic")
        if isinstance(v, dict):
            return self.dict_method(v, None, name, args, kwargs)
        if isinstance(v, tuple):
            if name == "index":
                for i, x in enumerate(v):
                    if self.cond(self.compare_vals("Eq", x, args[0])):
                        return i
                raise PyExc(ValueError)
            if name == "count":
                return sum(1 for x in v if self.cond(self.compare_vals("Eq", x, args[0])))
        raise Undecided("method %s of %r" % (name, v))

    def hash_method(self, ref, o, name, args, kwargs):
        f = o.fields
        if name == "update":
            f["data"] = self.binop(ast.Add(), f["data"], args[0])
            return None
        if name == "digest":
            return self.hash_bytes(f["alg"], f["data"], f["key"])
        if name == "hexdigest":
            d = self.hash_bytes(f["alg"], f["data"], f["key"])
            return d.hex() if isinstance(d, bytes) else ("$hex", d)
        if name == "copy":
            return self.p.alloc(HObj(HashObj, dict(f)))
        raise Undecided("hash method " + name)

    def list_method(self, ref, o, name, args, kwargs):
        if name == "append":
            o.items.append(args[0])
            return None
        if name == "add":       # a set of symbolic values is kept as a duplicate-free list
            o.items = self.dedupe(o.items + [args[0]])
            return None
        if name == "extend":
            o.items.extend(self.iterate(args[0]))
            return None
        if name == "pop":
            if not args or args[0] == -1:
                if o.items:
                    return o.items.pop()
                if o.pre is not None:
                    return self.pre_pop(o)
                raise PyExc(IndexError)
            k = args[0]
            if isinstance(k, (SInt, SBV)):
                k = self.p.concretize(self.it(k), limit=2 * len(o.items) + 8)
            if o.pre is not None:
                if k < 0 and -k <= len(o.items):
                    return o.items.pop(k)
                raise Undecided("pop(index) inside symbolic prefix")
            try:
                return o.items.pop(k)
            except IndexError:
                raise PyExc(IndexError)
        if name == "insert":
            k = args[0]
            if isinstance(k, (SInt, SBV)):
                k = self.p.concretize(self.it(k), limit=2 * len(o.items) + 8)
            if o.pre is not None and not (k < 0 and -k <= len(o.items)):
                raise Undecided("insert inside symbolic prefix")
            o.items.insert(k, args[1])
            return None
        if name == "copy":
            return self.p.alloc(HList(list(o.items), o.pre))
        if name == "index":
            for i, x in enumerate(self.iterate(ref)):
                if self.cond(self.compare_vals("Eq", x, args[0])):
                    return i
            raise PyExc(ValueError)
        if name == "count":
            return sum(1 for x in self.iterate(ref) if self.cond(self.compare_vals("Eq", x, args[0])))
        if name == "reverse":
            if o.pre is not None:
                raise Undecided("reverse of symbolic-prefix list")
            o.items.reverse()
            return None
        if name == "sort":
            r = self.b_sorted([ref], kwargs)
            o.items = self.p.deref(r).items
            return None
        if name == "clear":
            o.items, o.pre = [], None
            return None
        if name == "remove":
            for i, x in enumerate(self.iterate(ref)):
                if self.cond(self.compare_vals("Eq", x, args[0])):
                    del o.items[i]
                    return None
            raise PyExc(ValueError)
        raise Undecided("list method " + name)

    def pre_pop(self, o):
        name, ln, elem = o.pre[0], o.pre[1], o.pre[2]
        if not self.p.branch(ln >= 1):
            raise PyExc(IndexError)
        nl = z3.simplify(ln - 1)
        v = elem(nl)
        o.pre = (name, nl, elem)
        return v

    def dict_method(self, ref, o, name, args, kwargs):
        if name == "get":
            return self.dict_get(ref, args[0], args[1] if len(args) > 1 else None)
        if name == "items":
            return [(k, v) for k, v in self.dict_items(ref)]
        if name == "keys":
            return [k for k, _ in self.dict_items(ref)]
        if name == "values":
            return [v for _, v in self.dict_items(ref)]
        if name == "copy":
            return self.p.alloc(HDict(self.dict_items(ref)))
        if name == "update" and o is not None:
            for k, v in self.dict_items(args[0]):
                self.setitem(ref, k, v)
            return None
        if name == "pop" and o is not None:
            for i, (kk, vv) in enumerate(o.items):
                if self.cond(self.compare_vals("Eq", args[0], kk)):
                    del o.items[i]
                    return vv
            if len(args) > 1:
                return args[1]
            raise PyExc(KeyError)
        if name == "setdefault" and o is not None:
            r = self.dict_get(ref, args[0], default=KeyError.__class__)
            if r is KeyError.__class__:
                self.setitem(ref, args[0], args[1] if len(args) > 1 else None)
                return args[1] if len(args) > 1 else None
            return r
        raise Undecided("dict method " + name)

    def stream_method(self, st, name, args, kwargs):
        if name == "read":
            return self.stream_read(st, args[0] if args else None)
        if name == "tell":
            return self.length(mk_bytes(st.consumed))
        if name == "seek":
            off = args[0]
            whence = args[1] if len(args) > 1 else 0
            if whence == 1 and isinstance(off, int) and off <= 0:
                back = self._take_back(st.consumed, -off) if off else []
                if self.length(mk_bytes(back)) != -off:
                    raise Undecided("seek before start")
                st.consumed = self._drop_back(st.consumed, -off) if off else st.consumed
                st.rem = list(back) + st.rem
                return None
            if whence == 0 and isinstance(off, int) and off == 0:
                st.rem = st.consumed + st.rem
                st.consumed = []
                return 0
            raise Undecided("seek(%r,%r)" % (off, whence))
        if name == "getvalue":
            return mk_bytes(st.consumed + st.rem)
        if name == "close":
            return None
        raise Undecided("stream method " + name)

    def bytes_method(self, v, name, args, kwargs):
        if name == "hex":
            if isinstance(v, bytes):
                return v.hex()
            return ("$hex", v)
        if isinstance(v, bytes) and all(not isinstance(a, (Sym, Ref)) for a in args) and name in (
                "decode", "startswith", "endswith", "lstrip", "rstrip", "strip", "find", "index", "count",
                "split", "replace", "join", "lower", "upper", "isalnum", "zfill", "rjust", "ljust", "rfind"):
            try:
                r = getattr(v, name)(*args, **kwargs)
            except ValueError:
                raise PyExc(ValueError)
            except UnicodeDecodeError:
                raise PyExc(UnicodeDecodeError)
            return self.import_value(r)
        if name == "join":
            out = []
            items = self.iterate(args[0])
            for i, x in enumerate(items):
                if i:
                    out += as_chunks(v)
                out += as_chunks(x)
            return mk_bytes(out)
        if name in ("startswith", "endswith"):
            pre = args[0]
            if isinstance(pre, tuple):
                return self.truth(self.b_any([[self.bytes_method(v, name, [x], {}) for x in pre]], {}))
            n = self.length(pre)
            if not isinstance(n, int):
                raise Undecided("startswith symbolic-length prefix")
            if not self.p.branch(self.compare_vals("GtE", self.length(v), n)):
                return False
            part = self.bytes_slice(v, 0, n) if name == "startswith" else self.bytes_slice(v, -n, None) if n else b""
            return self.equal(part, pre)
        if name == "lstrip" and len(args) == 1 and isinstance(args[0], bytes) and len(args[0]) == 1:
            z = args[0][0]
            cur = v
            while True:
                n = self.length(cur)
                if not self.p.branch(self.compare_vals("Gt", n, 0)):
                    return cur
                b0 = self.bytes_index(cur, 0)
                if not self.p.branch(self.compare_vals("Eq", b0, z)):
                    return cur
                cur = self.bytes_slice(cur, 1, None)
        if name == "rstrip" and len(args) == 1 and isinstance(args[0], bytes) and len(args[0]) == 1:
            r = self.bytes_method(self.bytes_reverse(v), "lstrip", args, kwargs)
            return self.bytes_reverse(r)
        if name == "strip" and len(args) == 1 and isinstance(args[0], bytes) and len(args[0]) == 1:
            r = self.bytes_method(v, "lstrip", args, kwargs)
            return self.bytes_method(r, "rstrip", args, kwargs) if not isinstance(r, bytes) else r.rstrip(args[0])
        if name in ("ljust", "rjust") and 1 <= len(args) <= 2 and isinstance(args[0], int) and not kwargs \
                and (len(args) == 1 or (isinstance(args[1], bytes) and len(args[1]) == 1)):
            # pad with the fill byte up to the width; strings already that long are returned unchanged
            width, fill = args[0], (args[1] if len(args) == 2 else b" ")
            n = self.length(v)
            if not isinstance(n, int):
                if self.p.branch(self.compare_vals("GtE", n, width)):
                    return v
                n = self.p.concretize(self.it(n))
            if n >= width:
                return v
            pad = fill * (width - n)
            return mk_bytes(as_chunks(v) + [pad]) if name == "ljust" else mk_bytes([pad] + as_chunks(v))
        if name == "decode":
            return ("$dec", v)
        if name == "count" and len(args) == 1:
            return sum(1 for x in self.iterate(v) if self.cond(self.compare_vals("Eq", x, args[0] if isinstance(args[0], int) else args[0][0])))
        raise Undecided("bytes method %s on symbolic value" % name)

    def str_method(self, v, name, args, kwargs):
        if all(not isinstance(a, (Sym, Ref)) for a in args) or name == "format":
            if name == "format":
                if any(isinstance(x, (Sym, Ref)) for x in list(args) + list(kwargs.values())):
                    return SMsg()
                try:
                    return v.format(*args, **kwargs)
                except (IndexError, KeyError, ValueError, TypeError) as e:
                    raise PyExc(type(e))
            if name == "join":
                items = self.iterate(args[0])
                if all(isinstance(x, str) for x in items):
                    return v.join(items)
                raise Undecided("join of symbolic strings")
            try:
                r = getattr(v, name)(*args, **kwargs)
            except ValueError:
                raise PyExc(ValueError)
            except UnicodeEncodeError:
                raise PyExc(UnicodeEncodeError)
            return self.import_value(r)
        if name == "join":
            items = self.iterate(args[0])
            if all(isinstance(x, str) for x in items):
                return v.join(items)
        raise Undecided("str method %s with symbolic argument" % name)
