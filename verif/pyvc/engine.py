"""pyvc engine: path-by-path symbolic execution of the *real* function bodies read from
/repo at run time (ast), against sidecar contracts.  See DESIGN.md section 1.1.

Exploration uses a decision trail: every path re-executes the function from its entry with
a recorded prefix of branch decisions, so no state cloning is needed and control flow
(return / raise / break) is ordinary Python exception flow inside the interpreter.
"""
import ast
import builtins as _bi
import hashlib
import inspect
import io
import os
import sys
import time
import types

import z3

from .values import *  # noqa


class Undecided(Exception):
    """the engine cannot translate / decide something: obligation undecided (never a verdict)"""


class Infeasible(Exception):
    pass


class PathEnd(Exception):
    """path cut (after a loop-preservation check, or an assume(False))"""


class PyExc(Exception):
    """object-level Python exception raised by the code under analysis"""

    def __init__(self, cls, args=()):
        self.cls = cls
        self.args_v = args


class _Return(Exception):
    def __init__(self, v):
        self.v = v


class _Break(Exception):
    pass


class _Continue(Exception):
    pass


class ExcVal:
    """an exception instance value"""

    def __init__(self, cls, args=()):
        self.cls = cls
        self.args = args


# ------------------------------------------------------------------------------------------
# source index: the real text of every function analysed, re-read on every run
# ------------------------------------------------------------------------------------------
class SourceIndex:
    def __init__(self):
        self.files = {}
        self.used = {}      # qualified name -> sha256 of the source segment analysed

    def _load(self, path):
        if path not in self.files:
            src = open(path).read()
            tree = ast.parse(src)
            idx = {}

            def walk(node, prefix):
                for ch in ast.iter_child_nodes(node):
                    if isinstance(ch, (ast.FunctionDef, ast.ClassDef)):
                        q = prefix + ch.name
                        if isinstance(ch, ast.FunctionDef):
                            idx.setdefault(q, []).append(ch)
                        walk(ch, q + "." if isinstance(ch, ast.ClassDef) else q + ".<locals>.")
                    elif isinstance(ch, (ast.If, ast.Try, ast.With, ast.For, ast.While)) or \
                            ch.__class__.__name__ in ("ExceptHandler",):
                        walk(ch, prefix)
            walk(tree, "")
            self.files[path] = (src, tree, idx)
        return self.files[path]

    def lookup(self, fn):
        fn = inspect.unwrap(fn)
        code = fn.__code__
        memo = self.__dict__.setdefault("_memo", {})
        if code in memo:
            return memo[code]
        path = code.co_filename
        src, tree, idx = self._load(path)
        cands = idx.get(fn.__qualname__, [])
        node = None
        for c in cands:
            first = min([c.lineno] + [d.lineno for d in c.decorator_list])
            if first == code.co_firstlineno or c.lineno == code.co_firstlineno:
                node = c
        if node is None and cands:
            node = cands[-1]
        if node is None:
            raise Undecided("no source for %s" % fn.__qualname__)
        seg = ast.get_source_segment(src, node)
        name = fn.__module__ + "." + fn.__qualname__
        self.used[name] = {"sha256": hashlib.sha256(seg.encode()).hexdigest(),
                           "file": path, "line": node.lineno}
        memo[code] = node
        return node


SRC = SourceIndex()


# ------------------------------------------------------------------------------------------
# one explored path
# ------------------------------------------------------------------------------------------
class Path:
    def __init__(self, explorer, trail):
        self.ex = explorer
        self.trail = list(trail)
        self.pos = 0
        self.solver = z3.Solver()
        self.solver.set("timeout", explorer.timeout_ms)
        self.pc = []
        self.heap = {}
        self.next_id = 1
        self.blen = {}          # B-term id -> length (int | z3 Int term)
        self.notes = []
        self.fresh_n = 0
        self.inputs = {}        # name -> symbolic input value (for model extraction)
        self.depth = 0
        for a in explorer.axioms:
            self.solver.add(a)

    # -- heap
    def alloc(self, obj):
        r = Ref(self.next_id)
        self.next_id += 1
        self.heap[r.id] = obj
        return r

    def deref(self, r):
        return self.heap[r.id]

    # -- symbols
    def fresh(self, base, sort=None):
        self.fresh_n += 1
        name = "%s!%d" % (base, self.fresh_n)
        return z3.Const(name, sort if sort is not None else z3.IntSort())

    # -- assumptions
    def assume(self, t):
        if t is True:
            return
        if t is False:
            raise PathEnd()
        self.pc.append(t)
        self.solver.add(t)

    def check(self, *extra):
        self.ex.stats["solver_calls"] += 1
        t0 = time.time()
        if os.environ.get("PYVC_DUMP_QUERY"):
            with open(os.environ["PYVC_DUMP_QUERY"], "w") as f:
                f.write(self.solver.sexpr())
                for e in extra:
                    f.write("\n(assert %s)" % e.sexpr())
                f.write("\n(check-sat)\n")
        r = self.solver.check(*extra)
        self.ex.stats["solver_s"] += time.time() - t0
        return r

    def implied(self, t):
        """True iff pc => t is proved (unsat of the negation)."""
        if t is True:
            return True
        if t is False:
            return False
        t = z3.simplify(t)
        if z3.is_true(t):
            return True
        if z3.is_false(t):
            return False
        return self.check(z3.Not(t)) == z3.unsat

    def branch(self, cond):
        """decide a condition on this path; forks through the trail."""
        if isinstance(cond, bool):
            return cond
        if isinstance(cond, SBool):
            cond = cond.t
        cond = z3.simplify(cond)
        if z3.is_true(cond):
            return True
        if z3.is_false(cond):
            return False
        if self.pos < len(self.trail):
            d = self.trail[self.pos]
            self.pos += 1
            self.assume(cond if d else z3.Not(cond))
            return d
        rt = self.check(cond)
        rf = self.check(z3.Not(cond))
        can_t = rt != z3.unsat
        can_f = rf != z3.unsat
        if not can_t and not can_f:
            raise Infeasible()
        if can_t and can_f:
            self.ex.schedule(self.trail + [False])
            d = True
        else:
            d = can_t
        self.trail.append(d)
        self.pos += 1
        self.assume(cond if d else z3.Not(cond))
        if len(self.trail) > self.ex.max_decisions:
            raise Undecided("decision cap %d exceeded" % self.ex.max_decisions)
        return d

    def concretize(self, t, limit=520):
        """fork over every feasible value of Int term t (must be finitely many <= limit)."""
        t = z3.simplify(t)
        if z3.is_int_value(t):
            return t.as_long()
        n = 0
        while True:
            if self.pos < len(self.trail) and isinstance(self.trail[self.pos], tuple):
                v = self.trail[self.pos][1]
                self.pos += 1
                self.assume(t == v)
                return v
            r = self.check()
            if r != z3.sat:
                if r == z3.unsat:
                    raise Infeasible()
                raise Undecided("concretize: solver unknown")
            v = self.solver.model().eval(t, model_completion=True).as_long()
            # schedule the alternative "t != v" by an explicit branch
            if self.branch(t == v):
                return v
            n += 1
            if n > limit:
                raise Undecided("concretize: more than %d values" % limit)


class Explorer:
    def __init__(self, timeout_ms=10000, max_paths=4096, max_decisions=3000, axioms=()):
        self.timeout_ms = timeout_ms
        self.max_paths = max_paths
        self.max_decisions = max_decisions
        self.work = []
        self.axioms = list(axioms)
        self.stats = {"solver_calls": 0, "solver_s": 0.0, "paths": 0}

    def schedule(self, trail):
        self.work.append(list(trail))

    def explore(self, body):
        """body(path) -> result; yields (path, kind, payload) for each completed path."""
        self.work = [[]]
        n = 0
        import os as _os
        import time as _time
        budget = float(_os.environ.get("PYVC_WALL_BUDGET_S", "0") or 0)
        t_begin = _time.time()
        while self.work:
            trail = self.work.pop()
            p = Path(self, trail)
            n += 1
            if n > self.max_paths:
                raise Undecided("more than %d paths" % self.max_paths)
            if budget and _time.time() - t_begin > budget:
                # stop gracefully: what was explored keeps its verdicts, the rest is undecided (never a violation)
                raise Undecided("exploration wall budget of %.0fs used up after %d paths (%d pending)" % (budget, n - 1, len(self.work) + 1))
            try:
                res = body(p)
                self.stats["paths"] += 1
                yield p, "done", res
            except Infeasible:
                continue
            except PathEnd:
                continue


# ------------------------------------------------------------------------------------------
# helpers on terms
# ------------------------------------------------------------------------------------------
def I(v):
    return z3.IntVal(v)


def pow256(k):
    return 256 ** k


class Interp:
    """evaluator for the Python subset. One instance per path."""

    MAX_UNROLL = 600
    MAX_INLINE_DEPTH = 12

    def __init__(self, path, reg, bv=None, fn_stack=None):
        self.p = path
        self.reg = reg            # contract registry (may be None)
        self.bv = bv              # None or bit-vector width
        self.obligations = []     # filled by verifier hooks
        self.call_stack = []
        self.on_obligation = None  # callback(name, term)
        self.loop_inv = {}        # (fn qualname, ordinal) -> invariant spec
        self.no_contract_for = set()
        self.rec_fuel = {}

    # ---------------------------------------------------------------- int terms
    def is_int(self, v):
        return (isinstance(v, int) and not isinstance(v, bool)) or isinstance(v, (SInt, SBV, TInt)) or isinstance(v, bool)

    def it(self, v):
        """Int-sorted z3 term of an integer-like value (Int mode)."""
        if isinstance(v, TInt):
            v = v.val
        if isinstance(v, bool):
            return I(1 if v else 0)
        if isinstance(v, int):
            return I(v)
        if isinstance(v, SInt):
            return v.t
        if isinstance(v, SBool):
            return z3.If(v.t, I(1), I(0))
        if isinstance(v, SBV):
            if v.bound > self.bv:
                raise Undecided("inexact bit-vector value used as exact integer")
            org = getattr(self, "bv_origin", {}).get(id_key(v.t))
            if org is not None:
                return org          # the Int term this exact value was made from (0 <= term < 2**W asserted by its maker)
            return z3.BV2Int(v.t)
        raise Undecided("not an integer: %r" % (v,))

    def mkint(self, t):
        t = z3.simplify(t)
        if z3.is_int_value(t):
            return t.as_long()
        return SInt(t)

    def mkbool(self, t):
        if isinstance(t, bool):
            return t
        t = z3.simplify(t)
        if z3.is_true(t):
            return True
        if z3.is_false(t):
            return False
        return SBool(t)

    def bt(self, v):
        """Bool-sorted z3 term of a truth value"""
        v = self.truth(v)
        if isinstance(v, bool):
            return z3.BoolVal(v)
        return v.t

    # ---------------------------------------------------------------- bit-vector mode
    def bvt(self, v):
        """(term, bound) in bv mode"""
        W = self.bv
        if isinstance(v, TInt):
            v = v.val
        if isinstance(v, bool):
            v = int(v)
        if isinstance(v, int):
            if v < 0:
                raise Undecided("negative constant in bv mode")
            return z3.BitVecVal(v % (1 << W), W), v.bit_length()
        if isinstance(v, SBV):
            return v.t, v.bound
        if isinstance(v, SInt):
            raise Undecided("Int term in bv mode")
        raise Undecided("not an integer (bv): %r" % (v,))

    def mkbv(self, t, bound):
        t = z3.simplify(t)
        if z3.is_bv_value(t) and bound <= self.bv:
            return t.as_long()
        return SBV(t, bound)

    def bv_exact(self, v, what):
        t, b = self.bvt(v)
        if b > self.bv:
            raise Undecided("bv: inexact value reaches non-homomorphic operation %s" % what)
        return t, b

    def bv_binop(self, op, a, b):
        W = self.bv
        if isinstance(a, int) and isinstance(b, int):
            return None
        opn = type(op).__name__
        if opn in ("Add", "Mult", "BitOr", "BitXor", "BitAnd"):
            ta, ba = self.bvt(a)
            tb, bb = self.bvt(b)
            if opn == "Add":
                r = self.mkbv(ta + tb, max(ba, bb) + 1)
                return self._bv_keep_origin(r, a, b, lambda x, y: x + y)
            if opn == "Mult":
                return self.mkbv(ta * tb, ba + bb)
            if opn == "BitOr":
                return self.mkbv(ta | tb, max(ba, bb))
            if opn == "BitXor":
                return self.mkbv(ta ^ tb, max(ba, bb))
            if opn == "BitAnd":
                return self.mkbv(ta & tb, min(ba, bb))
        if opn == "LShift":
            if not isinstance(b, int):
                raise Undecided("bv: symbolic shift amount")
            ta, ba = self.bvt(a)
            return self.mkbv(ta << b, ba + b)
        if opn == "RShift":
            if not isinstance(b, int):
                raise Undecided("bv: symbolic shift amount")
            ta, ba = self.bv_exact(a, ">>")
            return self.mkbv(z3.LShR(ta, b), max(ba - b, 0))
        if opn == "Mod":
            if isinstance(b, int) and b > 0 and (b & (b - 1)) == 0 and b.bit_length() - 1 <= W:
                ta, ba = self.bvt(a)
                return self.mkbv(ta & z3.BitVecVal(b - 1, W), min(ba, b.bit_length() - 1))
            ta, ba = self.bv_exact(a, "%")
            tb, bb = self.bv_exact(b, "%")
            if not self.p.implied(tb != 0):
                raise Undecided("bv: possible zero divisor")
            return self.mkbv(z3.URem(ta, tb), min(ba, bb))
        if opn == "FloorDiv":
            ta, ba = self.bv_exact(a, "//")
            tb, bb = self.bv_exact(b, "//")
            if not self.p.implied(tb != 0):
                raise Undecided("bv: possible zero divisor")
            return self.mkbv(z3.UDiv(ta, tb), ba)
        if opn == "Sub":
            ta, ba = self.bv_exact(a, "-")
            tb, bb = self.bv_exact(b, "-")
            if not self.p.implied(z3.UGE(ta, tb)):
                raise Undecided("bv: subtraction may go negative")
            return self._bv_keep_origin(self.mkbv(ta - tb, ba), a, b, lambda x, y: x - y)
        raise Undecided("bv: operator %s" % opn)

    def _bv_origin_of(self, v):
        if isinstance(v, bool):
            return None
        if isinstance(v, int):
            return I(v) if v >= 0 else None
        if isinstance(v, SBV) and v.bound <= self.bv:
            return getattr(self, "bv_origin", {}).get(id_key(v.t))
        return None

    def _bv_keep_origin(self, r, a, b, f):
        """exact sum / proven-non-negative difference of two values made from Int terms: remember the Int term of the result
        (it() then avoids the BV2Int(Int2BV(.)) detour)"""
        if isinstance(r, SBV) and r.bound <= self.bv:
            oa, ob = self._bv_origin_of(a), self._bv_origin_of(b)
            if oa is not None and ob is not None:
                if not hasattr(self, "bv_origin"):
                    self.bv_origin = {}
                self.bv_origin[id_key(r.t)] = z3.simplify(f(oa, ob))
        return r

    def bv_compare(self, opn, a, b):
        ta, _ = self.bv_exact(a, "compare")
        tb, _ = self.bv_exact(b, "compare")
        oa, ob = self._bv_origin_of(a), self._bv_origin_of(b)
        if oa is not None and ob is not None and (isinstance(a, SBV) and isinstance(b, SBV)):
            # both exact values were made from Int terms: compare those (same truth value, no Int<->BV detour)
            g = {"Eq": lambda x, y: x == y, "NotEq": lambda x, y: x != y, "Lt": lambda x, y: x < y, "LtE": lambda x, y: x <= y,
                 "Gt": lambda x, y: x > y, "GtE": lambda x, y: x >= y}[opn]
            return self.mkbool(g(oa, ob))
        f = {"Eq": lambda x, y: x == y, "NotEq": lambda x, y: x != y, "Lt": z3.ULT, "LtE": z3.ULE,
             "Gt": z3.UGT, "GtE": z3.UGE}[opn]
        return self.mkbool(f(ta, tb))

    # ---------------------------------------------------------------- truthiness
    def truth(self, v):
        if isinstance(v, TInt):
            v = v.val
        if isinstance(v, (bool, SBool)):
            return v
        if v is None:
            return False
        if isinstance(v, int):
            return v != 0
        if isinstance(v, SInt):
            return self.mkbool(v.t != 0)
        if isinstance(v, SBV):
            t, _ = self.bv_exact(v, "truth")
            return self.mkbool(t != 0)
        if isinstance(v, (bytes, str, tuple)):
            return len(v) > 0
        if isinstance(v, SBytes):
            return self.compare_vals("Gt", self.length(v), 0)
        if isinstance(v, Ref):
            o = self.p.deref(v)
            if isinstance(o, (HList, HDict, HByteArray)):
                return self.compare_vals("Gt", self.length(v), 0)
            if isinstance(o, HObj):
                for nm in ("__bool__", "__len__"):
                    f = getattr(o.cls, nm, None)
                    if f is not None and isinstance(f, types.FunctionType):
                        r = self.call_function(f, [v], {})
                        return self.truth(r)
            return True
        if isinstance(v, (types.FunctionType, type, types.ModuleType, Closure, BoundMethod, BuiltinMethod, ExcVal)):
            return True
        raise Undecided("truth of %r" % (v,))

    def cond(self, v):
        return self.p.branch(self.truth(v))

    # ---------------------------------------------------------------- lengths
    def length(self, v):
        if isinstance(v, (bytes, str, tuple, list, dict, set, frozenset, range)):
            return len(v)
        if isinstance(v, SBytes):
            total = 0
            sym = []
            for c in v.chunks:
                n = chunk_len(c)
                if isinstance(n, int):
                    total += n
                else:
                    sym.append(n)
            if not sym:
                return total
            return self.mkint(z3.Sum([I(total)] + sym))
        if isinstance(v, Ref):
            o = self.p.deref(v)
            if isinstance(o, HList):
                if o.pre is None:
                    return len(o.items)
                return self.mkint(o.pre[1] + len(o.items))
            if isinstance(o, HDict):
                return len(o.items)
            if isinstance(o, HByteArray):
                return self.length(o.val)
            if isinstance(o, HObj):
                f = getattr(o.cls, "__len__", None)
                if f is not None:
                    return self.call_function(f, [v], {})
        raise Undecided("len of %r" % (v,))

    # ---------------------------------------------------------------- bytes operations
    def byte_range_assume(self, t):
        self.p.assume(z3.And(t >= 0, t <= 255))

    def ob_at(self, c, k):
        """byte k (python int) of OB chunk c as Int term"""
        return self.ob_at_sym(c, I(k))

    def _at(self, base, idx):
        """byte idx (Int term) of B-term base, looking through b_rev / b_slice"""
        idx = z3.simplify(idx)
        if z3.is_app(base) and base.decl().eq(B_rev) and id_key(base.arg(0)) in self.p.blen:
            n = self.p.blen[id_key(base.arg(0))]
            n = I(n) if isinstance(n, int) else n
            return self._at(base.arg(0), n - 1 - idx)
        if z3.is_app(base) and base.decl().eq(B_slice):
            return self._at(base.arg(0), base.arg(1) + idx)
        return B_at(base, idx)

    def chunk_byte(self, c, k):
        """byte k of chunk c (k python int within concrete-length chunk) -> int | Int term"""
        if isinstance(c, bytes):
            return c[k]
        if isinstance(c, IB):
            pos = k if c.end == "little" else c.w - 1 - k
            if c.w == 1:
                return c.t
            return (c.t / I(256 ** pos)) % 256
        return self.ob_at(c, k)

    def ob_slice(self, c, a, b):
        """sub-chunk [a,b) of OB chunk; a,b python ints or Int terms"""
        t = c.t
        at = a if not isinstance(a, int) else I(a)
        bt_ = b if not isinstance(b, int) else I(b)
        nt_ = c.n if not isinstance(c.n, int) else I(c.n)
        if z3.is_int_value(z3.simplify(at)) and z3.simplify(at).as_long() == 0:
            d = z3.simplify(bt_ - nt_)
            if (z3.is_int_value(d) and d.as_long() == 0) or (not z3.is_int_value(d) and self.p.implied(bt_ == nt_)):
                return c        # the whole chunk
        if z3.is_app(t) and t.decl().eq(B_slice):
            base, off = t.arg(0), t.arg(1)
            nt = B_slice(base, z3.simplify(off + at), z3.simplify(off + bt_))
        else:
            nt = B_slice(t, z3.simplify(at), z3.simplify(bt_))
        n = z3.simplify(bt_ - at)
        n = n.as_long() if z3.is_int_value(n) else n
        self.p.blen[id_key(nt)] = n
        return OB(nt, n)

    def split_chunk(self, c, k):
        """split concrete-length chunk at python int k: (head, tail)"""
        if isinstance(c, bytes):
            return c[:k], c[k:]
        if isinstance(c, IB):
            if c.end == "little":
                lo = IB(z3.simplify(c.t % I(256 ** k)), k, "little")
                hi = IB(z3.simplify(c.t / I(256 ** k)), c.w - k, "little")
                return lo, hi
            else:
                hi = IB(z3.simplify(c.t / I(256 ** (c.w - k))), k, "big")
                lo = IB(z3.simplify(c.t % I(256 ** (c.w - k))), c.w - k, "big")
                return hi, lo
        return self.ob_slice(c, 0, k), self.ob_slice(c, k, c.n)

    def bytes_index(self, v, k):
        chunks = as_chunks(v)
        if isinstance(k, (SInt, SBV)):
            # symbolic index: only into a single opaque chunk
            if len(chunks) == 1 and isinstance(chunks[0], OB):
                n = self.length(v)
                kt = self.it(k) if self.bv is None else z3.BV2Int(self.bv_exact(k, "index")[0])
                inb = z3.And(kt >= 0, kt < self.it(n))
                if not self.p.branch(inb):
                    # negative indices / out of range
                    if self.p.branch(z3.And(kt < 0, kt >= -self.it(n))):
                        kt = kt + self.it(n)
                    else:
                        raise PyExc(IndexError)
                term = self.ob_at_sym(chunks[0], kt)
                return self.int_from_term(term, 8)
            kk = self.p.concretize(self.it(k))
            return self.bytes_index(v, kk)
        if not isinstance(k, int):
            raise Undecided("bytes index %r" % (k,))
        if k < 0:
            # from the end
            off = -k - 1
            for c in reversed(chunks):
                n = chunk_len(c)
                if not isinstance(n, int):
                    # symbolic-length chunk: decide whether it is long enough
                    if self.p.branch(n > off):
                        term = self.ob_at_sym(c, z3.simplify(n - 1 - off))
                        return self.int_from_term(term, 8)
                    else:
                        off_t = z3.simplify(I(off) - n)
                        off = self.p.concretize(off_t)
                        continue
                if off < n:
                    return self.int_from_val(self.chunk_byte(c, n - 1 - off))
                off -= n
            raise PyExc(IndexError)
        off = k
        for c in chunks:
            n = chunk_len(c)
            if not isinstance(n, int):
                if self.p.branch(n > off):
                    term = self.ob_at(c, off)
                    return self.int_from_term(term, 8)
                off = self.p.concretize(z3.simplify(I(off) - n))
                continue
            if off < n:
                return self.int_from_val(self.chunk_byte(c, off))
            off -= n
        raise PyExc(IndexError)

    def ob_at_sym(self, c, kt):
        term = self._at(c.t, kt)
        self.byte_range_assume(term)
        return term

    def int_from_val(self, x):
        if isinstance(x, int):
            return x
        return self.int_from_term(x, 8)

    def int_from_term(self, term, bits):
        """wrap an Int term as a value in the current mode"""
        if self.bv is not None:
            r = self.mkbv(z3.Int2BV(term, self.bv), bits)
            if isinstance(r, SBV) and bits <= self.bv:
                # callers guarantee 0 <= term < 2**bits on this path: it() may hand the Int term back instead of a
                # BV2Int(Int2BV(.)) detour the solver would have to undo
                if not hasattr(self, "bv_origin"):
                    self.bv_origin = {}
                self.bv_origin[id_key(r.t)] = term
            return r
        return self.mkint(term)

    def total_concrete(self, chunks):
        return all(is_conc_len(c) for c in chunks)

    def bytes_slice(self, v, lo, hi, step=None):
        chunks = as_chunks(v)
        if step is not None:
            if step == -1 and lo is None and hi is None:
                return self.bytes_reverse(v)
            raise Undecided("bytes slice step")
        n = self.length(v)
        if isinstance(n, int) and all(x is None or isinstance(x, int) for x in (lo, hi)):
            a, b, _ = slice(lo, hi).indices(n)
            b = max(a, b)
            return mk_bytes(self._cut(chunks, a, b))
        # symbolic: normalise bounds as values
        if lo is None:
            lo = 0
        # leading cut
        if isinstance(lo, int) and lo >= 0 and (hi is None):
            rest = self._drop_front(chunks, lo)
            return mk_bytes(rest)
        if isinstance(lo, int) and lo < 0 and hi is None:
            # last -lo bytes
            k = -lo
            rest = self._take_back(chunks, k)
            return mk_bytes(rest)
        if isinstance(lo, int) and lo >= 0 and isinstance(hi, int) and hi < 0:
            rest = self._drop_front(chunks, lo)
            rest = self._drop_back(rest, -hi)
            return mk_bytes(rest)
        if isinstance(lo, int) and lo >= 0 and isinstance(hi, int) and hi >= 0:
            # take prefix of length hi then drop lo
            pre = self._take_front(chunks, hi)
            return mk_bytes(self._drop_front(pre, lo))
        # symbolic bounds
        lo_t = self.it(lo)
        hi_t = self.it(hi) if hi is not None else self.it(n)
        if len(chunks) == 1 and isinstance(chunks[0], OB):
            nt = self.it(n)
            # clamp as Python does (assuming non-negative bounds, checked)
            if not (self.p.implied(lo_t >= 0) and self.p.implied(hi_t >= 0)):
                raise Undecided("symbolic negative slice bound")
            if self.p.branch(hi_t > nt):
                hi_t = nt
            if self.p.branch(lo_t >= hi_t):
                return b""
            return mk_bytes([self.ob_slice(chunks[0], z3.simplify(lo_t), z3.simplify(hi_t))])
        # general: read through a stream-like walk
        if not self.p.implied(lo_t >= 0):
            raise Undecided("symbolic negative slice bound")
        st = HStream(chunks)
        self.stream_read(st, self.mkint(lo_t))
        return self.stream_read(st, self.mkint(z3.simplify(hi_t - lo_t)) if self.p.implied(hi_t >= lo_t) else self._neg_len(hi_t, lo_t))

    def _neg_len(self, hi_t, lo_t):
        if self.p.branch(hi_t >= lo_t):
            return self.mkint(z3.simplify(hi_t - lo_t))
        return 0

    def _cut(self, chunks, a, b):
        out = []
        pos = 0
        for c in chunks:
            n = chunk_len(c)
            s, e = max(a, pos), min(b, pos + n)
            if s < e:
                if s == pos and e == pos + n:
                    out.append(c)
                else:
                    h, t = self.split_chunk(c, e - pos) if e < pos + n else (c, None)
                    if s > pos:
                        _, h = self.split_chunk(h, s - pos)
                    out.append(h)
            pos += n
        return out

    def _drop_front(self, chunks, k):
        st = HStream(chunks)
        self.stream_read(st, k)
        return st.rem

    def _take_front(self, chunks, k):
        st = HStream(chunks)
        r = self.stream_read(st, k)
        return as_chunks(r)

    def _rev_chunks(self, chunks):
        return as_chunks(self.bytes_reverse(mk_bytes(chunks)))

    def _take_back(self, chunks, k):
        r = self._take_front(self._rev_chunks(chunks), k)
        return self._rev_chunks(r)

    def _drop_back(self, chunks, k):
        r = self._drop_front(self._rev_chunks(chunks), k)
        return self._rev_chunks(r)

    def bytes_reverse(self, v):
        out = []
        for c in reversed(as_chunks(v)):
            if isinstance(c, bytes):
                out.append(c[::-1])
            elif isinstance(c, IB):
                out.append(IB(c.t, c.w, "big" if c.end == "little" else "little"))
            else:
                t = c.t
                if z3.is_app(t) and t.decl().eq(B_rev):
                    nt = t.arg(0)
                else:
                    nt = B_rev(t)
                    self.p.blen[id_key(t)] = c.n
                self.p.blen[id_key(nt)] = c.n
                out.append(OB(nt, c.n))
        return mk_bytes(out)

    def int_from_bytes(self, v, endian):
        chunks = as_chunks(v)
        if not chunks:
            return 0
        if len(chunks) == 1 and isinstance(chunks[0], OB):
            c = chunks[0]
            f = B_int_le if endian == "little" else B_int_be
            if self.bv is not None and getattr(self, "bv_bytes_direct", False) and isinstance(c.n, int) and 8 * c.n <= self.bv:
                # bit-vector mode: assemble the value from the byte terms directly (no Int <-> BV detour through
                # b_int_le, which the solver cannot see through): (b0 & 0xFF) | (b1 & 0xFF) << 8 | ...
                bs = [self.ob_at(c, j) for j in range(c.n)]
                order = bs if endian == "little" else list(reversed(bs))
                W = self.bv
                acc = z3.BitVecVal(0, W)
                for j, b in enumerate(order):
                    acc = acc | ((z3.Int2BV(b, W) & z3.BitVecVal(0xFF, W)) << (8 * j))
                return self.mkbv(acc, 8 * c.n)
            term = f(c.t)
            self.p.assume(term >= 0)
            if isinstance(c.n, int):
                self.p.assume(term < 256 ** c.n)
                if c.n <= getattr(self, "int_bytes_expand", 8):        # definitional link between the integer value and the bytes
                    bs = [self.ob_at(c, j) for j in range(c.n)]
                    order = bs if endian == "little" else list(reversed(bs))
                    self.p.assume(term == z3.Sum([b * I(256 ** j) for j, b in enumerate(order)]))
            self.p.blen[id_key(c.t)] = c.n
            return self.int_from_term(term, 8 * c.n if isinstance(c.n, int) else 10 ** 6)
        if not self.total_concrete(chunks):
            raise Undecided("int.from_bytes over symbolic-length pieces")
        order = chunks if endian == "big" else list(reversed(chunks))
        # most significant first
        acc = I(0)
        for c in order:
            n = chunk_len(c)
            if isinstance(c, bytes):
                val = I(int.from_bytes(c, endian))
            elif isinstance(c, IB):
                if c.end == endian or c.w == 1:
                    val = c.t
                else:
                    val = z3.Sum([((c.t / I(256 ** j)) % 256) * I(256 ** (c.w - 1 - j)) for j in range(c.w)])
            else:
                f = B_int_le if endian == "little" else B_int_be
                val = f(c.t)
                self.p.assume(z3.And(val >= 0, val < 256 ** n))
                self.p.blen[id_key(c.t)] = c.n
            acc = acc * I(256 ** n) + val
        total = sum(chunk_len(c) for c in chunks)
        return self.int_from_term(z3.simplify(acc), 8 * total)

    def int_to_bytes(self, nv, length, endian, signed=False):
        if signed:
            raise Undecided("to_bytes signed")
        if not isinstance(length, int):
            length = self.p.concretize(self.it(length))
        if isinstance(nv, bool):
            nv = int(nv)
        if isinstance(nv, int):
            try:
                return nv.to_bytes(length, endian)
            except OverflowError:
                raise PyExc(OverflowError)
        if isinstance(nv, SBV):
            t, b = self.bv_exact(nv, "to_bytes")
            if b > 8 * length:
                ok = z3.ULT(t, z3.BitVecVal(1 << (8 * length), self.bv)) if 8 * length < self.bv else True
                if not self.p.branch(ok):
                    raise PyExc(OverflowError)
            term = z3.BV2Int(t)
        else:
            term = self.it(nv)
            if not self.p.branch(z3.And(term >= 0, term < 256 ** length)):
                raise PyExc(OverflowError)
        if length == 0:
            return b""
        # round trip: to_bytes(from_bytes(b)) == b
        if z3.is_app(term) and (term.decl().eq(B_int_le) or term.decl().eq(B_int_be)):
            src = term.arg(0)
            if self.p.blen.get(id_key(src)) == length:
                src_end = "little" if term.decl().eq(B_int_le) else "big"
                ob = OB(src, length)
                if src_end == endian:
                    return mk_bytes([ob])
                return self.bytes_reverse(mk_bytes([ob]))
        return mk_bytes([IB(term, length, endian)])

    # -- streams
    def stream_read(self, st, n):
        """BytesIO.read(n) on HStream st"""
        out = []
        if n is None:
            out = st.rem
            st.consumed += out
            st.rem = []
            return mk_bytes(out)
        if isinstance(n, bool):
            n = int(n)
        if isinstance(n, SBV):
            n = self.mkint(z3.BV2Int(self.bv_exact(n, "read")[0]))
        if isinstance(n, int) and n < 0:
            return self.stream_read(st, None)
        need = n
        while st.rem:
            c = st.rem[0]
            L = chunk_len(c)
            if isinstance(need, int) and isinstance(L, int):
                if need == 0:
                    break
                if L <= need:
                    out.append(c)
                    st.rem.pop(0)
                    need -= L
                    continue
                h, t = self.split_chunk(c, need)
                out.append(h)
                st.rem[0] = t
                need = 0
                break
            need_t = self.it(need)
            L_t = L if not isinstance(L, int) else I(L)
            if z3.is_int_value(z3.simplify(need_t - L_t)) and z3.simplify(need_t - L_t).as_long() >= 0:
                whole = True
            elif isinstance(need, int) and need == 0:
                break
            else:
                if isinstance(need, SInt) and not self.p.implied(need_t >= 0):
                    if not self.p.branch(need_t >= 0):
                        # negative n: read everything
                        out += st.rem
                        st.rem = []
                        need = 0
                        break
                if not self.p.branch(need_t > 0):
                    need = 0
                    break
                whole = self.p.branch(L_t <= need_t)
            if whole:
                out.append(c)
                st.rem.pop(0)
                need = self.mkint(z3.simplify(need_t - L_t))
                continue
            # split needed inside chunk c at symbolic/concrete position `need`
            if isinstance(c, OB):
                h = self.ob_slice(c, 0, z3.simplify(need_t))
                t = self.ob_slice(c, z3.simplify(need_t), L_t)
                out.append(h)
                st.rem[0] = t
            else:
                k = self.p.concretize(need_t)
                h, t = self.split_chunk(c, k)
                out.append(h)
                st.rem[0] = t
            need = 0
            break
        st.consumed += out
        return mk_bytes(out)

    # -- equality of byte strings
    def bytes_eq(self, a, b):
        """-> bool | z3 Bool term"""
        ca, cb = norm_chunks(as_chunks(a)), norm_chunks(as_chunks(b))
        if self.total_concrete(ca) and self.total_concrete(cb):
            la = sum(chunk_len(c) for c in ca)
            lb = sum(chunk_len(c) for c in cb)
            if la != lb:
                return False
            return self._eq_aligned(ca, cb)
        # peel equal-length chunks from the left and from the right
        conj = []
        ca, cb = list(ca), list(cb)
        # opaque chunks that are empty on this path carry no bytes: drop them first
        for side in (ca, cb):
            for c in list(side):
                n = chunk_len(c)
                if not isinstance(n, int) and len(side) > 1 and self.p.implied(n == 0):
                    side.remove(c)

        def peel(front):
            while ca and cb:
                x = ca[0] if front else ca[-1]
                y = cb[0] if front else cb[-1]
                lx, ly = chunk_len(x), chunk_len(y)
                # a symbolic-length chunk that is empty on this path is dropped
                dropped = False
                for side, ln in ((ca, lx), (cb, ly)):
                    if not isinstance(ln, int) and not (isinstance(lx, type(ly)) and not isinstance(ly, int)
                                                        and z3.simplify(lx - ly).eq(I(0))) and self.p.implied(ln == 0):
                        side.pop(0 if front else -1)
                        dropped = True
                        break
                if dropped:
                    continue
                if isinstance(lx, int) and isinstance(ly, int):
                    k = min(lx, ly)
                    if front:
                        hx, tx = (x, None) if lx == k else self.split_chunk(x, k)
                        hy, ty = (y, None) if ly == k else self.split_chunk(y, k)
                        r = self._eq_aligned(norm_chunks([hx]), norm_chunks([hy]))
                        ca.pop(0)
                        cb.pop(0)
                        if tx is not None:
                            ca.insert(0, tx)
                        if ty is not None:
                            cb.insert(0, ty)
                    else:
                        tx, hx = (None, x) if lx == k else self.split_chunk(x, lx - k)
                        ty, hy = (None, y) if ly == k else self.split_chunk(y, ly - k)
                        r = self._eq_aligned(norm_chunks([hx]), norm_chunks([hy]))
                        ca.pop()
                        cb.pop()
                        if tx is not None:
                            ca.append(tx)
                        if ty is not None:
                            cb.append(ty)
                    if r is False:
                        return False
                    if r is not True:
                        conj.append(r)
                    continue
                if isinstance(x, OB) and isinstance(y, OB):
                    lxt = lx if not isinstance(lx, int) else I(lx)
                    lyt = ly if not isinstance(ly, int) else I(ly)
                    d = z3.simplify(lxt - lyt)
                    if (z3.is_int_value(d) and d.as_long() == 0) or self.p.implied(lxt == lyt):
                        conj.append(x.t == y.t)
                        if front:
                            ca.pop(0)
                            cb.pop(0)
                        else:
                            ca.pop()
                            cb.pop()
                        continue
                return True
            return True
        if peel(True) is False:
            return False
        if peel(False) is False:
            return False
        if not ca and not cb:
            return z3.And(conj) if conj else True
        if not ca or not cb:
            rest = ca or cb
            tot = self.length(mk_bytes(rest))
            if isinstance(tot, int):
                return False if tot else (z3.And(conj) if conj else True)
            if any(isinstance(c, (bytes, IB)) for c in rest):
                return False
            conj.append(self.it(tot) == 0)
            return z3.And(conj)
        # one opaque chunk of symbolic length against pieces of concrete total length: byte-wise
        for one, other in ((ca, cb), (cb, ca)):
            if len(one) == 1 and isinstance(one[0], OB) and self.total_concrete(other):
                L = sum(chunk_len(c) for c in other)
                if L <= 80:
                    n = one[0].n
                    bs = []
                    pos = 0
                    for c in other:
                        for j in range(chunk_len(c)):
                            bs.append(self._bt(self.chunk_byte(c, j)) == self.ob_at_sym(one[0], I(pos)))
                            pos += 1
                    conj.append((n if not isinstance(n, int) else I(n)) == L)
                    return z3.And(conj + bs)
        # fallback: lengths equal and canonical B terms equal
        la, lb = self.length(mk_bytes(ca)), self.length(mk_bytes(cb))
        conj.append(self.it(la) == self.it(lb))
        conj.append(chunks_to_B(ca) == chunks_to_B(cb))
        return z3.And(conj)

    def _eq_aligned(self, ca, cb):
        """both concrete total length and equal totals: refine to common boundaries"""
        conj = []
        ca, cb = list(ca), list(cb)
        while ca and cb:
            x, y = ca[0], cb[0]
            lx, ly = chunk_len(x), chunk_len(y)
            k = min(lx, ly)
            if lx > k:
                x, tx = self.split_chunk(x, k)
                ca[0] = tx
            else:
                ca.pop(0)
            if ly > k:
                y, ty = self.split_chunk(y, k)
                cb[0] = ty
            else:
                cb.pop(0)
            r = self._eq_piece(x, y, k)
            if r is False:
                return False
            if r is not True:
                conj.append(r)
        if not conj:
            return True
        return z3.And(conj) if len(conj) > 1 else conj[0]

    def _eq_piece(self, x, y, k):
        if isinstance(x, bytes) and isinstance(y, bytes):
            return x == y
        if isinstance(x, OB) and isinstance(y, OB):
            return x.t == y.t
        if k > 8 and ((isinstance(x, OB) and isinstance(y, IB)) or (isinstance(y, OB) and isinstance(x, IB))):
            # opaque vs integer encoding of the same width: equal bytes <=> equal integer values
            ob, ib = (x, y) if isinstance(x, OB) else (y, x)
            f = B_int_le if ib.end == "little" else B_int_be
            v = f(ob.t)
            self.p.assume(z3.And(v >= 0, v < 256 ** k))
            self.p.blen[id_key(ob.t)] = k
            return ib.t == v
        if isinstance(x, OB) or isinstance(y, OB):
            # opaque vs structured: byte-wise
            if k > 64:
                return chunks_to_B([x]) == chunks_to_B([y])
            return z3.And([self._bt(self.chunk_byte(x, j)) == self._bt(self.chunk_byte(y, j)) for j in range(k)])
        # IB / const: compare in the byte order of an integer-encoded side (same width, so equal bytes <=> equal values);
        # two encodings of the same order then compare their terms directly instead of two byte-sum expansions
        end = x.end if isinstance(x, IB) else (y.end if isinstance(y, IB) else "little")
        vx = self._piece_int(x, end)
        vy = self._piece_int(y, end)
        r = z3.simplify(vx == vy)
        if z3.is_true(r):
            return True
        if z3.is_false(r):
            return False
        return r

    def _bt(self, x):
        return I(x) if isinstance(x, int) else x

    def _piece_int(self, c, endian):
        if isinstance(c, bytes):
            return I(int.from_bytes(c, endian))
        if c.end == endian or c.w == 1:
            return c.t
        return z3.Sum([((c.t / I(256 ** j)) % 256) * I(256 ** (c.w - 1 - j)) for j in range(c.w)])


class TKey:
    """hashable key for a z3 term that keeps the term alive (z3 ast ids are recycled once a
    term is garbage collected, so raw ids must never be used as dictionary keys)"""
    __slots__ = ("t", "h")

    def __init__(self, t):
        self.t = t
        self.h = t.hash()

    def __hash__(self):
        return self.h

    def __eq__(self, o):
        return isinstance(o, TKey) and self.t.eq(o.t)


def id_key(t):
    return TKey(t)
