"""expression / statement evaluation of the Python subset (mixin for Interp)."""
import ast
import inspect
import io
import types

import z3

from .values import *  # noqa
from .engine import (Undecided, PyExc, PathEnd, _Return, _Break, _Continue, ExcVal, SRC, I, id_key)


class SuperProxy:
    def __init__(self, self_val, after_cls):
        self.self_val, self.after_cls = self_val, after_cls


class Frame:
    def __init__(self, env, glob, fn=None, qual="<expr>", cls=None):
        self.env, self.glob, self.fn, self.qual, self.cls = env, glob, fn, qual, cls
        self.loops = None


def loop_nodes(fnode):
    out = []

    def walk(n):
        for ch in ast.iter_child_nodes(n):
            if isinstance(ch, (ast.FunctionDef, ast.Lambda, ast.ClassDef)):
                continue
            if isinstance(ch, (ast.For, ast.While)):
                out.append(ch)
            walk(ch)
    walk(fnode)
    return out


def assigned_names(nodes):
    names = []

    def tgt(t):
        if isinstance(t, ast.Name):
            if t.id not in names:
                names.append(t.id)
        elif isinstance(t, (ast.Tuple, ast.List)):
            for e in t.elts:
                tgt(e)
        elif isinstance(t, ast.Starred):
            tgt(t.value)

    def walk(n):
        if isinstance(n, (ast.FunctionDef, ast.Lambda, ast.ClassDef)):
            return
        if isinstance(n, ast.Assign):
            for t in n.targets:
                tgt(t)
        elif isinstance(n, (ast.AugAssign, ast.AnnAssign)):
            tgt(n.target)
        elif isinstance(n, ast.For):
            tgt(n.target)
        elif isinstance(n, ast.NamedExpr):
            tgt(n.target)
        for ch in ast.iter_child_nodes(n):
            walk(ch)
    for n in nodes:
        walk(n)
    return names


def mutated_names(nodes):
    """names whose heap object is mutated in place: x.append(..), x[i] = .., x.attr = .."""
    names = []

    def base(n):
        while isinstance(n, (ast.Attribute, ast.Subscript)):
            n = n.value
        return n.id if isinstance(n, ast.Name) else None

    def walk(n):
        if isinstance(n, (ast.FunctionDef, ast.Lambda, ast.ClassDef)):
            return
        if isinstance(n, ast.Call) and isinstance(n.func, ast.Attribute) and n.func.attr in (
                "append", "extend", "insert", "pop", "remove", "update", "add", "clear", "sort", "reverse",
                "read", "seek", "write", "readline", "readinto"):
            b = base(n.func.value)
            if b and b not in names:
                names.append(b)
        if isinstance(n, (ast.Assign, ast.AugAssign)):
            ts = n.targets if isinstance(n, ast.Assign) else [n.target]
            for t in ts:
                if isinstance(t, (ast.Attribute, ast.Subscript)):
                    b = base(t)
                    if b and b not in names:
                        names.append(b)
        for ch in ast.iter_child_nodes(n):
            walk(ch)
    for n in nodes:
        walk(n)
    return names


class EvalMixin:
    # ------------------------------------------------------------------ importing real values
    def import_value(self, v):
        if isinstance(v, int) and type(v) not in (int, bool):
            return TInt(type(v), int(v))
        if v is None or isinstance(v, (bool, int, float, str, bytes, types.FunctionType, type,
                                       types.ModuleType, types.BuiltinFunctionType, types.MethodType,
                                       Sym, Ref, Closure, BoundMethod, BuiltinMethod, range, frozenset)):
            return v
        if isinstance(v, tuple):
            return tuple(self.import_value(x) for x in v)
        import struct as _struct
        if isinstance(v, _struct.Struct):
            return v
        cache = self.p.__dict__.setdefault("import_cache", {})
        k = id(v)
        # keep the real object alive for the whole path: ids of dead objects are recycled
        self.p.__dict__.setdefault("import_keepalive", []).append(v)
        if k in cache:
            return cache[k]
        if isinstance(v, list):
            r = self.p.alloc(HList([]))
            cache[k] = r
            self.p.deref(r).items = [self.import_value(x) for x in v]
            return r
        if isinstance(v, dict):
            r = self.p.alloc(HDict([]))
            cache[k] = r
            self.p.deref(r).items = [(self.import_value(a), self.import_value(b)) for a, b in v.items()]
            return r
        if isinstance(v, set):
            return frozenset(v)
        if isinstance(v, bytearray):
            r = self.p.alloc(HByteArray(bytes(v)))
            cache[k] = r
            return r
        if hasattr(v, "__dict__") and not callable(v):
            r = self.p.alloc(HObj(type(v), {}))
            cache[k] = r
            self.p.deref(r).fields = {a: self.import_value(b) for a, b in vars(v).items()}
            return r
        if callable(v):
            return v
        raise Undecided("cannot import real value of type %s" % type(v).__name__)

    # ------------------------------------------------------------------ expressions
    def eval(self, node, fr):
        m = getattr(self, "e_" + type(node).__name__, None)
        if m is None:
            raise Undecided("expression %s" % type(node).__name__)
        return m(node, fr)

    def e_Constant(self, n, fr):
        return n.value

    def e_Name(self, n, fr):
        if n.id in fr.env:
            return fr.env[n.id]
        if n.id in fr.glob:
            return self.import_value(fr.glob[n.id])
        import builtins
        if hasattr(builtins, n.id):
            return getattr(builtins, n.id)
        raise PyExc(NameError)

    def e_BinOp(self, n, fr):
        a = self.eval(n.left, fr)
        b = self.eval(n.right, fr)
        return self.binop(n.op, a, b)

    def e_UnaryOp(self, n, fr):
        return self.unop(n.op, self.eval(n.operand, fr))

    def e_BoolOp(self, n, fr):
        is_and = isinstance(n.op, ast.And)
        v = None
        for i, e in enumerate(n.values):
            v = self.eval(e, fr)
            if i == len(n.values) - 1:
                return v
            c = self.cond(v)
            if is_and and not c:
                return v if not isinstance(v, Sym) else self._falsy_of(v)
            if (not is_and) and c:
                return v if not isinstance(v, Sym) else self._truthy_of(v)
        return v

    def _falsy_of(self, v):
        if isinstance(v, SBool):
            return False
        if isinstance(v, (SInt, SBV)):
            return 0
        if isinstance(v, SBytes):
            return b""
        return v

    def _truthy_of(self, v):
        if isinstance(v, SBool):
            return True
        return v

    def e_Compare(self, n, fr):
        left = self.eval(n.left, fr)
        res = True
        terms = []
        for op, rn in zip(n.ops, n.comparators):
            right = self.eval(rn, fr)
            r = self.compare_vals(type(op).__name__, left, right)
            if r is False:
                return False
            if r is not True:
                if len(n.ops) == 1:
                    return r
                # chained: short-circuit semantic; comparators here are side-effect free
                terms.append(r.t)
            left = right
        if terms:
            return self.mkbool(z3.And(terms))
        return res

    def e_IfExp(self, n, fr):
        if self.cond(self.eval(n.test, fr)):
            return self.eval(n.body, fr)
        return self.eval(n.orelse, fr)

    def e_Tuple(self, n, fr):
        out = []
        for e in n.elts:
            if isinstance(e, ast.Starred):
                out.extend(self.iterate(self.eval(e.value, fr)))
            else:
                out.append(self.eval(e, fr))
        return tuple(out)

    def e_List(self, n, fr):
        return self.p.alloc(HList(list(self.e_Tuple(n, fr))))

    def e_Set(self, n, fr):
        vals = self.dedupe(self.e_Tuple(n, fr))
        return self.p.alloc(HList(list(vals)))

    def e_Dict(self, n, fr):
        items = []
        for k, v in zip(n.keys, n.values):
            if k is None:
                d = self.eval(v, fr)
                for kk, vv in self.dict_items(d):
                    items = [(a, b) for a, b in items if self.compare_vals("Eq", a, kk) is not True] + [(kk, vv)]
                continue
            items.append((self.eval(k, fr), self.eval(v, fr)))
        return self.p.alloc(HDict(items))

    def e_JoinedStr(self, n, fr):
        parts = []
        opaque = False
        for v in n.values:
            if isinstance(v, ast.Constant):
                parts.append(v.value)
            else:
                x = self.eval(v.value, fr)
                if isinstance(x, TInt) and not isinstance(x.val, Sym):
                    x = x.val
                if isinstance(x, (Sym, Ref)) or not isinstance(x, (str, int, bytes, float, bool, type(None), tuple)):
                    opaque = True
                    continue
                if v.conversion == 114:          # !r
                    x = repr(x)
                elif v.conversion == 115:        # !s
                    x = str(x)
                try:
                    parts.append(format(x, self.eval(v.format_spec, fr) if v.format_spec else ""))
                except Exception:
                    opaque = True
        if opaque:
            # symbolic ingredients: the text is not modelled (fit for exception messages only, see values.SMsg)
            return SMsg()
        return "".join(parts)

    def e_Lambda(self, n, fr):
        return Closure(n, fr.env, fr.glob)

    def e_NamedExpr(self, n, fr):
        v = self.eval(n.value, fr)
        fr.env[n.target.id] = v
        return v

    def mangle(self, name, fr):
        """class-private name mangling of `__x` inside a class body"""
        if name.startswith("__") and not name.endswith("__") and isinstance(fr.cls, type):
            return "_%s%s" % (fr.cls.__name__.lstrip("_"), name)
        return name

    def e_Attribute(self, n, fr):
        v = self.eval(n.value, fr)
        return self.getattr(v, self.mangle(n.attr, fr), fr)

    def e_Subscript(self, n, fr):
        v = self.eval(n.value, fr)
        if isinstance(n.slice, ast.Slice):
            lo = self.eval(n.slice.lower, fr) if n.slice.lower else None
            hi = self.eval(n.slice.upper, fr) if n.slice.upper else None
            st = self.eval(n.slice.step, fr) if n.slice.step else None
            return self.slice_of(v, lo, hi, st)
        k = self.eval(n.slice, fr)
        return self.index(v, k)

    def e_ListComp(self, n, fr):
        return self.p.alloc(HList(self.comp(n, fr)))

    def e_GeneratorExp(self, n, fr):
        return self.p.alloc(HList(self.comp(n, fr)))

    def dedupe(self, items):
        """set semantics for possibly symbolic elements: fork on pairwise equality"""
        out = []
        for x in items:
            dup = False
            for y in out:
                r = self.compare_vals("Eq", x, y)
                if r is True or (r is not False and self.p.branch(r)):
                    dup = True
                    break
            if not dup:
                out.append(x)
        return out

    def e_SetComp(self, n, fr):
        # a set is kept as a duplicate-free heap list (so add/pop/remove work on it)
        return self.p.alloc(HList(self.dedupe(self.comp(n, fr))))

    def e_DictComp(self, n, fr):
        out = []
        sub = Frame(dict(fr.env), fr.glob, fr.fn, fr.qual, fr.cls)

        def rec(gi):
            if gi == len(n.generators):
                out.append((self.eval(n.key, sub), self.eval(n.value, sub)))
                return
            g = n.generators[gi]
            for x in self.iterate(self.eval(g.iter, sub)):
                self.assign(g.target, x, sub)
                if all(self.cond(self.eval(c, sub)) for c in g.ifs):
                    rec(gi + 1)
        rec(0)
        return self.p.alloc(HDict(out))

    def comp(self, n, fr):
        out = []
        sub = Frame(dict(fr.env), fr.glob, fr.fn, fr.qual, fr.cls)

        def rec(gi):
            if gi == len(n.generators):
                out.append(self.eval(n.elt, sub))
                return
            g = n.generators[gi]
            for x in self.iterate(self.eval(g.iter, sub)):
                self.assign(g.target, x, sub)
                if all(self.cond(self.eval(c, sub)) for c in g.ifs):
                    rec(gi + 1)
        rec(0)
        return out

    def e_Call(self, n, fr):
        # special forms of the contract language
        if isinstance(n.func, ast.Name) and n.func.id not in fr.env:
            nm = n.func.id
            if nm == "implies" and len(n.args) == 2 and "implies" not in fr.glob:
                if not self.cond(self.eval(n.args[0], fr)):
                    return True
                return self.truth(self.eval(n.args[1], fr))
            if nm == "old" and "old" not in fr.glob and self.old_frame is not None:
                return self.eval(n.args[0], self.old_frame)
            if nm == "super" and not n.args:
                return SuperProxy(fr.env.get("self", fr.env.get("cls")), fr.cls)
        f = self.eval(n.func, fr)
        args = []
        for a in n.args:
            if isinstance(a, ast.Starred):
                args.extend(self.iterate(self.eval(a.value, fr)))
            else:
                args.append(self.eval(a, fr))
        kwargs = {}
        for k in n.keywords:
            if k.arg is None:
                for kk, vv in self.dict_items(self.eval(k.value, fr)):
                    kwargs[kk] = vv
            else:
                kwargs[k.arg] = self.eval(k.value, fr)
        return self.call(f, args, kwargs, n)

    # ------------------------------------------------------------------ iteration helpers
    def iterate(self, v):
        """concrete-length iteration -> python list of element values"""
        if isinstance(v, (tuple, list, str, range, frozenset, set)):
            return list(v)
        if isinstance(v, bytes):
            return list(v)
        if isinstance(v, dict):
            return list(v)
        if isinstance(v, SBytes):
            n = self.length(v)
            if not isinstance(n, int):
                n = self.p.concretize(self.it(n), limit=self.MAX_UNROLL)
            return [self.bytes_index(v, j) for j in range(n)]
        if isinstance(v, Ref):
            o = self.p.deref(v)
            if isinstance(o, HList):
                if o.pre is not None:
                    raise Undecided("iteration over symbolic-prefix list")
                return list(o.items)
            if isinstance(o, HDict):
                return [k for k, _ in o.items]
            if isinstance(o, HByteArray):
                return self.iterate(o.val)
            if isinstance(o, HObj) and hasattr(o.cls, "__iter__"):
                r = self.call_function(o.cls.__iter__, [v], {})
                return self.iterate(r)
        raise Undecided("iteration over %r" % (v,))

    def dict_items(self, v):
        if isinstance(v, dict):
            return [(self.import_value(a), self.import_value(b)) for a, b in v.items()]
        if isinstance(v, Ref) and isinstance(self.p.deref(v), HDict):
            return list(self.p.deref(v).items)
        raise Undecided("not a dict: %r" % (v,))

    # ------------------------------------------------------------------ indexing
    def index(self, v, k):
        if isinstance(k, SBool):
            k = SInt(self.it(k))
        if is_bytes(v):
            if isinstance(v, bytes) and isinstance(k, int):
                try:
                    return v[k]
                except IndexError:
                    raise PyExc(IndexError)
            return self.bytes_index(v, k)
        if isinstance(v, (tuple, str, range, list)):
            if isinstance(k, (SInt, SBV)):
                return self.select_concrete(v, k)
            try:
                return self.import_value(v[k])
            except IndexError:
                raise PyExc(IndexError)
            except TypeError:
                raise PyExc(TypeError)
        if isinstance(v, dict):
            return self.dict_get(v, k)
        if isinstance(v, Ref):
            o = self.p.deref(v)
            if isinstance(o, HList):
                return self.list_index(o, k)
            if isinstance(o, HDict):
                return self.dict_get(v, k)
            if isinstance(o, HByteArray):
                return self.bytes_index(o.val, k)
            if isinstance(o, HObj) and hasattr(o.cls, "__getitem__"):
                return self.call_function(o.cls.__getitem__, [v, k], {})
        raise Undecided("index into %r" % (v,))

    def select_concrete(self, seq, k):
        """seq[k] for a concrete sequence and symbolic k: fork on the value of k"""
        kk = self.p.concretize(self.it(k), limit=max(len(seq) * 2 + 4, 8))
        try:
            return self.import_value(seq[kk])
        except IndexError:
            raise PyExc(IndexError)

    def list_index(self, o, k):
        if isinstance(k, (SInt, SBV)) and o.pre is not None and not o.items:
            # symbolic index into a purely symbolic list: element function of the list
            kt = self.it(k)
            ln = o.pre[1]
            if not self.p.branch(z3.And(kt >= 0, kt < ln)):
                if self.p.branch(z3.And(kt < 0, kt >= -ln)):
                    return o.pre[2](z3.simplify(kt + ln))
                raise PyExc(IndexError)
            return o.pre[2](z3.simplify(kt))
        if isinstance(k, (SInt, SBV)):
            k = self.p.concretize(self.it(k), limit=max(2 * len(o.items) + 4, 16))
        if not isinstance(k, int):
            raise PyExc(TypeError)
        n = len(o.items)
        if o.pre is None:
            try:
                return o.items[k]
            except IndexError:
                raise PyExc(IndexError)
        # symbolic prefix + explicit suffix
        if k < 0:
            if -k <= n:
                return o.items[k]
            return self.pre_elem(o, k + n)           # negative index into the prefix
        # concrete k >= 0 into  base[:ln] + items
        ln = o.pre[1]
        if self.p.branch(I(k) < ln):
            return o.pre[2](I(k))
        if n:
            off = z3.simplify(I(k) - ln)                 # position among the explicit items: finitely many values
            j = self.p.concretize(off, limit=n + 2) if not z3.is_int_value(off) else off.as_long()
            if 0 <= j < n:
                return o.items[j]
        raise PyExc(IndexError)

    def pre_elem(self, o, j):
        """element j (negative: from the end) of the symbolic prefix; IndexError if too short"""
        name, ln, elem = o.pre[0], o.pre[1], o.pre[2]
        need = -j
        if not self.p.branch(ln >= need):
            raise PyExc(IndexError)
        return elem(z3.simplify(ln - need))

    def dict_get(self, d, k, default=KeyError):
        items = self.dict_items(d)
        for kk, vv in items:
            r = self.compare_vals("Eq", k, kk)
            if r is True or (r is not False and self.p.branch(r)):
                return vv
        if default is KeyError:
            raise PyExc(KeyError)
        return default

    def slice_of(self, v, lo, hi, st):
        if is_bytes(v):
            if isinstance(v, bytes) and all(x is None or isinstance(x, int) for x in (lo, hi, st)):
                return v[lo:hi:st]
            return self.bytes_slice(v, lo, hi, st)
        if isinstance(v, (tuple, str, list, range)):
            if all(x is None or isinstance(x, int) for x in (lo, hi, st)):
                return v[lo:hi:st]
            lo = None if lo is None else self.p.concretize(self.it(lo))
            hi = None if hi is None else self.p.concretize(self.it(hi))
            return v[lo:hi:st]
        if isinstance(v, Ref):
            o = self.p.deref(v)
            if isinstance(o, HByteArray):
                return self.p.alloc(HByteArray(self.slice_of(o.val, lo, hi, st)))
            if isinstance(o, HList):
                if (o.pre is not None and not o.items and st is None and (lo is None or (isinstance(lo, int) and lo == 0))
                        and isinstance(hi, (SInt, SBV))):
                    # prefix xs[:hi] with symbolic hi of a purely symbolic list: same elements, length min(len, max(hi, 0))
                    ht = self.it(hi)
                    if self.p.branch(ht < 0):
                        raise Undecided("negative symbolic bound in a slice of a symbolic-prefix list")
                    if self.p.branch(o.pre[1] <= ht):
                        return self.p.alloc(HList([], o.pre))
                    return self.p.alloc(HList([], (o.pre[0], z3.simplify(ht), o.pre[2])))
                lo = lo if lo is None or isinstance(lo, int) else self.p.concretize(self.it(lo))
                hi = hi if hi is None or isinstance(hi, int) else self.p.concretize(self.it(hi))
                if o.pre is None:
                    return self.p.alloc(HList(o.items[lo:hi:st]))
                n = len(o.items)
                if st is None and not o.items and lo in (None, 0) and isinstance(hi, int) and hi >= 0:
                    # prefix xs[:hi] of a purely symbolic list: same elements, length min(len, hi)
                    ln = o.pre[1]
                    if self.p.branch(ln <= hi):
                        return self.p.alloc(HList([], o.pre))
                    return self.p.alloc(HList([], (o.pre[0], I(hi), o.pre[2])))
                if st is None and lo is not None and lo < 0 and -lo <= n and (hi is None or (hi < 0 and -hi <= n)):
                    return self.p.alloc(HList(o.items[lo:hi]))
                if st is None and (lo is None or lo == 0) and hi is not None and hi < 0 and -hi <= n:
                    return self.p.alloc(HList(o.items[:hi], o.pre))
                raise Undecided("slice of symbolic-prefix list")
            if isinstance(o, HObj) and hasattr(o.cls, "__getitem__"):
                raise Undecided("slice via __getitem__")
        raise Undecided("slice of %r" % (v,))

    # ------------------------------------------------------------------ attribute access
    def getattr(self, v, name, fr=None):
        if isinstance(v, Ref):
            o = self.p.deref(v)
            if isinstance(o, HObj):
                if o.cls.__name__ == "HashObj":
                    if name == "digest_size":
                        from .calls import HASH_LEN
                        return HASH_LEN[o.fields["alg"]]
                    return BuiltinMethod(v, name)
                if name in o.fields:
                    return o.fields[name]
                if name == "__class__":
                    return o.cls
                if "_atom" in o.fields and name in o.fields.get("_subatoms", {}):
                    # an abstract element (symbolic list member): its sub-objects are abstract too
                    return self.sub_atom(v, o, name)
                return self.class_attr(o.cls, name, v)
            if isinstance(o, (HList, HDict, HStream, HByteArray)):
                return BuiltinMethod(v, name)
            raise Undecided("attribute %s of heap %r" % (name, o))
        if isinstance(v, TInt):
            for c in v.cls.__mro__:
                if c in (int, object):
                    break
                if name in vars(c):
                    return self.bind_static(vars(c)[name], v, c)
            return BuiltinMethod(v.val, name)
        if isinstance(v, SuperProxy):
            mro = type.mro(self.cls_of(v.self_val)) if not isinstance(v.self_val, type) else type.mro(v.self_val)
            i = mro.index(v.after_cls)
            for c in mro[i + 1:]:
                if c is int and name in vars(c):
                    return self.int_dunder(v.self_val, name)
                if name in vars(c):
                    return self.bind_static(vars(c)[name], v.self_val, c)
            raise PyExc(AttributeError)
        if isinstance(v, type):
            if name == "__name__":
                return v.__name__
            try:
                raw = inspect.getattr_static(v, name)
            except AttributeError:
                raise PyExc(AttributeError)
            if isinstance(raw, classmethod):
                return BoundMethod(v, raw.__func__)
            if isinstance(raw, staticmethod):
                return raw.__func__
            if isinstance(raw, (types.FunctionType,)):
                return raw
            if v in (int, bytes, str, dict, list, bytearray) or isinstance(raw, (types.BuiltinFunctionType, types.MethodDescriptorType, types.ClassMethodDescriptorType)):
                return getattr(v, name)
            return self.import_value(raw)
        if isinstance(v, types.ModuleType):
            try:
                return self.import_value(getattr(v, name))
            except AttributeError:
                raise PyExc(AttributeError)
        import struct as _struct
        if isinstance(v, _struct.Struct):
            if name in ("size", "format"):
                return getattr(v, name)
            return BuiltinMethod(v, name)
        if isinstance(v, ExcVal):
            if name == "args":
                return tuple(v.args)
            raise Undecided("exception attribute " + name)
        if v is None:
            raise PyExc(AttributeError)
        if isinstance(v, (bytes, SBytes, int, SInt, SBV, str, tuple, bool, float, frozenset, SBool, dict)):
            return BuiltinMethod(v, name)
        if isinstance(v, (types.FunctionType, Closure)):
            if name == "__name__":
                return getattr(v, "__name__", "<lambda>")
        raise Undecided("attribute %s of %r" % (name, v))

    def int_dunder(self, self_val, name):
        """super().__lt__ / super().__new__ ... reaching the builtin int"""
        from .verifier import native
        m = self
        cmpn = {"__lt__": "Lt", "__le__": "LtE", "__gt__": "Gt", "__ge__": "GtE", "__eq__": "Eq", "__ne__": "NotEq"}
        if name == "__new__":
            @native
            def new(mach, cls, n=0):
                if isinstance(n, TInt):
                    n = n.val
                if not mach.is_int(n):
                    raise Undecided("int.__new__ of non-int")
                return TInt(cls, n)
            return new
        if name in cmpn:
            @native
            def cmp(mach, other):
                a = self_val.val if isinstance(self_val, TInt) else self_val
                b = other.val if isinstance(other, TInt) else other
                return mach.compare_vals(cmpn[name], a, b)
            return cmp
        raise Undecided("super().%s on int" % name)

    def sub_atom(self, v, o, name):
        from .symlist import sub_atom
        return sub_atom(self, v, o, name)

    def cls_of(self, v):
        if isinstance(v, TInt):
            return v.cls
        if isinstance(v, Ref):
            o = self.p.deref(v)
            if isinstance(o, HObj):
                return o.cls
            return {HList: list, HDict: dict, HStream: io.BytesIO, HByteArray: bytearray}[type(o)]
        if isinstance(v, (bool, SBool)):
            return bool
        if self.is_int(v):
            return int
        if is_bytes(v):
            return bytes
        if isinstance(v, ExcVal):
            return v.cls
        if isinstance(v, (types.FunctionType, Closure, BoundMethod)):
            return types.FunctionType
        return type(v)

    def class_attr(self, cls, name, self_val):
        try:
            raw = inspect.getattr_static(cls, name)
        except AttributeError:
            raise PyExc(AttributeError)
        return self.bind_static(raw, self_val, cls)

    def bind_static(self, raw, self_val, cls):
        if isinstance(raw, classmethod):
            c = self.cls_of(self_val) if not isinstance(self_val, type) else self_val
            return BoundMethod(c, raw.__func__)
        if isinstance(raw, staticmethod):
            return raw.__func__
        if isinstance(raw, property):
            return self.call_function(raw.fget, [self_val], {})
        if isinstance(raw, types.FunctionType):
            if isinstance(self_val, type):
                return raw
            return BoundMethod(self_val, raw)
        return self.import_value(raw)

    def setattr(self, v, name, val):
        if isinstance(v, Ref):
            o = self.p.deref(v)
            if isinstance(o, HObj):
                o.fields[name] = val
                return
        raise Undecided("attribute store on %r" % (v,))

    # ------------------------------------------------------------------ statements
    def exec_block(self, stmts, fr):
        for s in stmts:
            self.exec(s, fr)

    def exec(self, node, fr):
        m = getattr(self, "s_" + type(node).__name__, None)
        if m is None:
            raise Undecided("statement %s" % type(node).__name__)
        return m(node, fr)

    def s_Expr(self, n, fr):
        if isinstance(n.value, ast.Constant):
            return      # docstring (dropped by extraction, stated in DESIGN)
        if isinstance(n.value, ast.Call) and isinstance(n.value.func, ast.Name) and n.value.func.id == "print":
            return      # print(...) dropped
        self.eval(n.value, fr)

    def s_Pass(self, n, fr):
        pass

    def s_Assign(self, n, fr):
        v = self.eval(n.value, fr)
        for t in n.targets:
            self.assign(t, v, fr)

    def s_AnnAssign(self, n, fr):
        if n.value is not None:
            self.assign(n.target, self.eval(n.value, fr), fr)

    def s_AugAssign(self, n, fr):
        t = n.target
        if isinstance(t, ast.Name):
            cur = self.e_Name(t, fr)
            val = self.eval(n.value, fr)
            if isinstance(cur, Ref) and isinstance(n.op, ast.Add):
                o = self.p.deref(cur)
                if isinstance(o, HList):
                    o.items.extend(self.iterate(val))
                    return
                if isinstance(o, HByteArray):
                    o.val = self.binop(ast.Add(), o.val, val if is_bytes(val) else self.p.deref(val).val)
                    return
            fr.env[t.id] = self.binop(n.op, cur, val)
        elif isinstance(t, ast.Attribute):
            obj = self.eval(t.value, fr)
            an = self.mangle(t.attr, fr)
            cur = self.getattr(obj, an)
            self.setattr(obj, an, self.binop(n.op, cur, self.eval(n.value, fr)))
        elif isinstance(t, ast.Subscript):
            obj = self.eval(t.value, fr)
            k = self.eval(t.slice, fr)
            cur = self.index(obj, k)
            self.setitem(obj, k, self.binop(n.op, cur, self.eval(n.value, fr)))
        else:
            raise Undecided("augmented assignment target")

    def assign(self, t, v, fr):
        if isinstance(t, ast.Name):
            fr.env[t.id] = v
        elif isinstance(t, (ast.Tuple, ast.List)):
            vals = self.iterate(v)
            star = [i for i, e in enumerate(t.elts) if isinstance(e, ast.Starred)]
            if star:
                i = star[0]
                after = len(t.elts) - i - 1
                if len(vals) < len(t.elts) - 1:
                    raise PyExc(ValueError)
                for e, x in zip(t.elts[:i], vals[:i]):
                    self.assign(e, x, fr)
                self.assign(t.elts[i].value, self.p.alloc(HList(vals[i:len(vals) - after])), fr)
                for e, x in zip(t.elts[i + 1:], vals[len(vals) - after:]):
                    self.assign(e, x, fr)
                return
            if len(vals) != len(t.elts):
                raise PyExc(ValueError)
            for e, x in zip(t.elts, vals):
                self.assign(e, x, fr)
        elif isinstance(t, ast.Attribute):
            self.setattr(self.eval(t.value, fr), self.mangle(t.attr, fr), v)
        elif isinstance(t, ast.Subscript):
            obj = self.eval(t.value, fr)
            if isinstance(t.slice, ast.Slice):
                o = self.p.deref(obj) if isinstance(obj, Ref) else None
                lo = self.eval(t.slice.lower, fr) if t.slice.lower else None
                hi = self.eval(t.slice.upper, fr) if t.slice.upper else None
                if isinstance(o, HList) and t.slice.step is None and all(x is None or isinstance(x, int) for x in (lo, hi)):
                    new = self.iterate(v)
                    if o.pre is None:
                        o.items[lo:hi] = new
                        return
                    n = len(o.items)
                    # with a symbolic prefix only slices that lie inside the explicit suffix are supported
                    if lo is not None and lo < 0 and -lo <= n and (hi is None or (hi < 0 and -hi <= n)):
                        o.items[lo:hi] = new
                        return
                raise Undecided("slice assignment")
            self.setitem(obj, self.eval(t.slice, fr), v)
        else:
            raise Undecided("assignment target %s" % type(t).__name__)

    def setitem(self, obj, k, v):
        if isinstance(obj, Ref):
            o = self.p.deref(obj)
            if isinstance(o, HList):
                if isinstance(k, (SInt, SBV)):
                    k = self.p.concretize(self.it(k))
                if o.pre is not None and not (isinstance(k, int) and k < 0 and -k <= len(o.items)):
                    raise Undecided("store into symbolic prefix")
                try:
                    o.items[k] = v
                except IndexError:
                    raise PyExc(IndexError)
                return
            if isinstance(o, HDict):
                for i, (kk, vv) in enumerate(o.items):
                    r = self.compare_vals("Eq", k, kk)
                    if r is True or (r is not False and self.p.branch(r)):
                        o.items[i] = (kk, v)
                        return
                o.items.append((k, v))
                return
            if isinstance(o, HByteArray):
                n = self.length(o.val)
                if isinstance(k, (SInt, SBV)):
                    k = self.p.concretize(self.it(k))
                if not self.is_int(v):
                    raise PyExc(TypeError)
                if not isinstance(v, int):
                    tv = self.it(v)
                    if not self.p.branch(z3.And(tv >= 0, tv <= 255)):
                        raise PyExc(ValueError)
                    piece = IB(tv, 1, "little")
                else:
                    if not 0 <= v <= 255:
                        raise PyExc(ValueError)
                    piece = bytes([v])
                if k < 0:
                    # require enough bytes
                    ln = self.compare_vals("GtE", n, -k)
                    if not self.p.branch(ln):
                        raise PyExc(IndexError)
                    head = self.bytes_slice(o.val, 0, k) if True else None
                    tail = self.bytes_slice(o.val, k + 1, None) if k != -1 else b""
                else:
                    if not self.p.branch(self.compare_vals("Gt", n, k)):
                        raise PyExc(IndexError)
                    head = self.bytes_slice(o.val, 0, k)
                    tail = self.bytes_slice(o.val, k + 1, None)
                o.val = mk_bytes(as_chunks(head) + [piece] + as_chunks(tail))
                return
            if isinstance(o, HObj) and hasattr(o.cls, "__setitem__"):
                self.call_function(o.cls.__setitem__, [obj, k, v], {})
                return
        raise Undecided("item store on %r" % (obj,))

    def s_Return(self, n, fr):
        raise _Return(self.eval(n.value, fr) if n.value is not None else None)

    def s_If(self, n, fr):
        if self.cond(self.eval(n.test, fr)):
            self.exec_block(n.body, fr)
        else:
            self.exec_block(n.orelse, fr)

    def s_Raise(self, n, fr):
        if n.exc is None:
            if self.active_exc:
                raise self.active_exc[-1]
            raise PyExc(RuntimeError)
        # the message of an exception is dropped by extraction when it cannot be evaluated
        try:
            v = self.eval(n.exc, fr)
        except Undecided:
            if isinstance(n.exc, ast.Call):
                v = self.eval(n.exc.func, fr)
            else:
                raise
        if isinstance(v, ExcVal):
            raise PyExc(v.cls, v.args)
        if isinstance(v, type) and issubclass(v, BaseException):
            raise PyExc(v)
        raise Undecided("raise of %r" % (v,))

    def s_Assert(self, n, fr):
        if not self.cond(self.eval(n.test, fr)):
            raise PyExc(AssertionError)

    def s_Break(self, n, fr):
        raise _Break()

    def s_Continue(self, n, fr):
        raise _Continue()

    def s_Global(self, n, fr):
        raise Undecided("global statement")

    def s_Import(self, n, fr):
        import importlib
        for a in n.names:
            mod = importlib.import_module(a.name)
            fr.env[a.asname or a.name.split(".")[0]] = mod if a.asname else importlib.import_module(a.name.split(".")[0])

    def s_ImportFrom(self, n, fr):
        import importlib
        mod = importlib.import_module(n.module)
        for a in n.names:
            fr.env[a.asname or a.name] = self.import_value(getattr(mod, a.name))

    def s_FunctionDef(self, n, fr):
        fr.env[n.name] = Closure(n, fr.env, fr.glob, n.name)

    def s_Delete(self, n, fr):
        for t in n.targets:
            if isinstance(t, ast.Name):
                fr.env.pop(t.id, None)
            elif isinstance(t, ast.Subscript):
                obj = self.eval(t.value, fr)
                k = self.eval(t.slice, fr)
                o = self.p.deref(obj) if isinstance(obj, Ref) else None
                if isinstance(o, HDict):
                    for i, (kk, vv) in enumerate(o.items):
                        r = self.compare_vals("Eq", k, kk)
                        if r is True or (r is not False and self.p.branch(r)):
                            del o.items[i]
                            break
                    else:
                        raise PyExc(KeyError)
                elif isinstance(o, HList) and o.pre is None and isinstance(k, int):
                    del o.items[k]
                else:
                    raise Undecided("del subscript")
            else:
                raise Undecided("del target")

    def s_With(self, n, fr):
        raise Undecided("with statement")

    def s_Try(self, n, fr):
        try:
            try:
                self.exec_block(n.body, fr)
            except PyExc as e:
                for h in n.handlers:
                    if h.type is None:
                        match = True
                    else:
                        ht = self.eval(h.type, fr)
                        hts = ht if isinstance(ht, tuple) else (ht,)
                        match = any(isinstance(c, type) and issubclass(e.cls, c) for c in hts)
                    if match:
                        if h.name:
                            fr.env[h.name] = ExcVal(e.cls, e.args_v)
                        self.active_exc.append(e)
                        try:
                            self.exec_block(h.body, fr)
                        finally:
                            self.active_exc.pop()
                        break
                else:
                    raise
            else:
                self.exec_block(n.orelse, fr)
        finally:
            if n.finalbody:
                self.exec_block(n.finalbody, fr)

    # ------------------------------------------------------------------ loops
    def loop_ordinal(self, node, fr):
        if fr.loops is None:
            fr.loops = loop_nodes(fr.fnode) if getattr(fr, "fnode", None) is not None else []
        for i, l in enumerate(fr.loops):
            if l is node:
                return i + 1
        return None

    def loop_spec(self, node, fr):
        if fr.fn is None or self.reg is None:
            return None
        k = self.loop_ordinal(node, fr)
        if k is None:
            return None
        return self.reg.loop_spec(fr.fn, k)

    def s_While(self, n, fr):
        spec = self.loop_spec(n, fr)
        if spec is not None:
            return self.cut_loop(n, fr, spec, test=lambda: self.cond(self.eval(n.test, fr)), step=None)
        it = 0
        while self.cond(self.eval(n.test, fr)):
            it += 1
            if it > self.MAX_UNROLL:
                raise Undecided("while loop exceeds unwind cap %d (needs an invariant)" % self.MAX_UNROLL)
            try:
                self.exec_block(n.body, fr)
            except _Break:
                return
            except _Continue:
                continue
        self.exec_block(n.orelse, fr)

    def seq_descriptor(self, v):
        """-> (count value, elem(k value) -> value) for symbolic-trip iteration"""
        if isinstance(v, tuple) and v and v[0] == "$range":
            _, a, b, s = v
            if not isinstance(s, int) or s == 0:
                raise Undecided("range with symbolic step")
            if s > 0:
                diff = self.binop(ast.Sub(), b, a)
                cnt = self.binop(ast.FloorDiv(), self.binop(ast.Add(), diff, s - 1), s)
            else:
                diff = self.binop(ast.Sub(), a, b)
                cnt = self.binop(ast.FloorDiv(), self.binop(ast.Add(), diff, -s - 1), -s)
            return cnt, (lambda k: self.binop(ast.Add(), a, self.binop(ast.Mult(), k, s))), True
        if isinstance(v, tuple) and len(v) == 2 and v[0] == "$enumerate":
            cnt, el, clamp = self.seq_descriptor(v[1])
            return cnt, (lambda k: (k, el(k))), clamp
        if is_bytes(v):
            return self.length(v), (lambda k: self.bytes_index(v, k)), False
        if isinstance(v, Ref) and isinstance(self.p.deref(v), HByteArray):
            val = self.p.deref(v).val
            return self.length(val), (lambda k: self.bytes_index(val, k)), False
        if isinstance(v, Ref) and isinstance(self.p.deref(v), HList) and self.p.deref(v).pre is not None:
            o = self.p.deref(v)
            if o.items:
                raise Undecided("iteration over prefix+suffix list")
            cnt = self.mkint(o.pre[1])
            if self.bv is not None and isinstance(cnt, SInt):
                # bit-vector mode: the symbolic length is an exact value when the path bounds it below the word size
                for bits in (8, 16, 24, self.bv - 4, self.bv - 1):
                    if 0 < bits < self.bv and self.p.implied(z3.And(cnt.t >= 0, cnt.t < (1 << bits))):
                        cnt = self.int_from_term(cnt.t, bits)
                        break
                else:
                    raise Undecided("bv: list length not bounded by the word size")
            return cnt, (lambda k: o.pre[2](self.it(k))), False
        return None

    def s_For(self, n, fr):
        itv = self.eval_iter(n.iter, fr)
        spec = self.loop_spec(n, fr)
        desc = self.seq_descriptor(itv)
        if desc is None:
            # a concrete-length sequence is simply iterated (an invariant, if any, is not needed)
            for x in self.iterate(itv):
                self.assign(n.target, x, fr)
                try:
                    self.exec_block(n.body, fr)
                except _Break:
                    return
                except _Continue:
                    continue
            self.exec_block(n.orelse, fr)
            return
        cnt, elem, clamp = desc
        if clamp and not isinstance(cnt, int):
            # range(): count is max(0, cnt)
            if not self.p.branch(self.compare_vals("Gt", cnt, 0)):
                cnt = 0
        if isinstance(cnt, int):
            for k in range(max(cnt, 0)):
                self.assign(n.target, elem(k), fr)
                try:
                    self.exec_block(n.body, fr)
                except _Break:
                    return
                except _Continue:
                    continue
            self.exec_block(n.orelse, fr)
            return
        if spec is None:
            k = 0
            while self.p.branch(self.compare_vals("Gt", cnt, k)):
                if k >= self.MAX_UNROLL:
                    raise Undecided("for loop exceeds unwind cap (needs an invariant)")
                self.assign(n.target, elem(k), fr)
                k += 1
                try:
                    self.exec_block(n.body, fr)
                except _Break:
                    return
                except _Continue:
                    continue
            self.exec_block(n.orelse, fr)
            return
        # invariant-based cut, hidden head index _k
        idx = spec.get("index", "_k")
        fr.env[idx] = 0
        fr.env["_n"] = cnt

        def test():
            return self.p.branch(self.compare_vals("Lt", fr.env[idx], cnt))

        def pre_body():
            self.assign(n.target, elem(fr.env[idx]), fr)

        def step():
            fr.env[idx] = self.binop(ast.Add(), fr.env[idx], 1)
        return self.cut_loop(n, fr, spec, test=test, step=step, pre_body=pre_body, index=idx, count=cnt)

    def eval_iter(self, node, fr):
        """evaluate a for-iterable; range() with symbolic bounds becomes a descriptor"""
        if isinstance(node, ast.Call) and isinstance(node.func, ast.Name) and node.func.id == "range" and "range" not in fr.env:
            args = [self.eval(a, fr) for a in node.args]
            if all(isinstance(a, int) for a in args):
                return range(*args)
            if len(args) == 1:
                return ("$range", 0, args[0], 1)
            if len(args) == 2:
                return ("$range", args[0], args[1], 1)
            return ("$range", args[0], args[1], args[2])
        if isinstance(node, ast.Call) and isinstance(node.func, ast.Name) and node.func.id == "enumerate" and "enumerate" not in fr.env \
                and len(node.args) == 1 and not node.keywords:
            inner = self.eval(node.args[0], fr)
            d = self.seq_descriptor(inner)
            if d is not None and not isinstance(d[0], int):
                return ("$enumerate", inner)
            return self.call(enumerate, [inner], {}, node)
        return self.eval(node, fr)

    def havoc_like(self, name, cur, hint=None):
        """a fresh symbolic value of the same kind as `cur`"""
        p = self.p
        kind = hint
        if kind is None:
            if isinstance(cur, (bool, SBool)):
                kind = "bool"
            elif self.is_int(cur):
                kind = "int"
            elif is_bytes(cur):
                kind = "bytes"
            elif isinstance(cur, Ref) and isinstance(p.deref(cur), HByteArray):
                kind = "bytearray"
            elif cur is None:
                raise Undecided("havoc of None-valued variable %s (give a type hint)" % name)
            else:
                raise Undecided("havoc of variable %s of kind %s (give a type hint)" % (name, type(cur).__name__))
        return self.make_sym(name, kind)

    def cut_loop(self, n, fr, spec, test, step, pre_body=None, index=None, count=None):
        """Hoare-style cut: establish / (havoc, assume inv) / preserve-or-exit"""
        fnname = fr.qual
        k = self.loop_ordinal(n, fr)
        tag = "%s/loop%d" % (fnname, k)
        inv = spec["inv"]
        if self.reg is not None:
            fr.env.setdefault("spec", self.reg.spec_module)
        hints = spec.get("types", {})
        ghost_init = spec.get("ghost_init", {})

        def stream_is(mach, st, v):
            """contract-language predicate for invariants: the unread rest of BytesIO `st` is exactly the bytes `v`"""
            o = mach.p.deref(st) if isinstance(st, Ref) else None
            if not isinstance(o, HStream):
                raise Undecided("stream_is on a non-stream")
            return mach.compare_vals("Eq", mk_bytes(list(o.rem)), v)
        stream_is._pyvc_native = True
        fr.env.setdefault("stream_is", stream_is)
        # ghosts of the contract under verification may be named by an invariant (parsing loops relate the stream to the
        # ghost values it was built from): made visible under names the function itself does not use
        genv = getattr(self, "ghost_env", None) or {}
        for clause in inv:
            try:
                cn = self.reg.parse(clause) if self.reg is not None else ast.parse(clause, mode="eval").body
            except SyntaxError:
                continue
            for n2 in ast.walk(cn):
                if isinstance(n2, ast.Name) and n2.id in genv and n2.id not in fr.env and n2.id not in (fr.glob or {}):
                    fr.env[n2.id] = genv[n2.id]
        for g, e in ghost_init.items():
            fr.env[g] = self.eval_spec(e, fr)
        self.prove_all(inv, fr, tag + "/establish")
        mods = [x for x in assigned_names(n.body) if x != "_"]
        muts = [x for x in mutated_names(n.body) if x in fr.env]
        for g in spec.get("ghost_step", {}):
            if g not in mods:
                mods.append(g)
        if index and index not in mods:
            mods.append(index)
        for x in mods:
            if x in fr.env or x in hints:
                if x == index:
                    t = self.p.fresh(index)
                    # bit-vector mode: the head index is at most the trip count, so it inherits the count's bit bound
                    ibits = min(self.bv, count.bound) if self.bv is not None and isinstance(count, SBV) else self.bv
                    fr.env[x] = SInt(t) if self.bv is None else SBV(z3.Int2BV(t, self.bv), ibits)
                    self.p.assume(z3.And(t >= 0, t <= self.it(count)))
                    if self.bv is not None:
                        self.p.assume(t < (1 << (self.bv - 1)))
                        if not hasattr(self, "bv_origin"):
                            self.bv_origin = {}
                        self.bv_origin[id_key(fr.env[x].t)] = t
                    continue
                fr.env[x] = self.havoc_like(x, fr.env.get(x), hints.get(x))
        inv_nodes = []
        for clause in inv:
            try:
                inv_nodes.append(self.reg.parse(clause) if self.reg is not None else ast.parse(clause, mode="eval").body)
            except SyntaxError:
                inv_nodes.append(None)
        # objects mutated in place whose new state an invariant clause DEFINES (`name == expr` for a list,
        # `stream_is(name, expr)` for a BytesIO): they are (re)bound from that clause below instead of being havocked blindly
        defined_muts = set()
        for nd in inv_nodes:
            if (isinstance(nd, ast.Compare) and len(nd.ops) == 1 and isinstance(nd.ops[0], ast.Eq) and isinstance(nd.left, ast.Name)
                    and nd.left.id in muts and not any(isinstance(n2, ast.Name) and n2.id == nd.left.id for n2 in ast.walk(nd.comparators[0]))):
                defined_muts.add(nd.left.id)
            if (isinstance(nd, ast.Call) and isinstance(nd.func, ast.Name) and nd.func.id == "stream_is" and len(nd.args) == 2
                    and isinstance(nd.args[0], ast.Name)):
                defined_muts.add(nd.args[0].id)
        for x in muts:
            if x in mods or x in defined_muts:
                continue
            cur = fr.env[x]
            o = self.p.deref(cur) if isinstance(cur, Ref) else None
            if isinstance(o, HByteArray):
                o.val = self.make_sym(x, "bytes")
            elif x in hints:
                fr.env[x] = self.make_sym(x, hints[x])
            else:
                raise Undecided("loop body mutates %s in place (give a type hint)" % x)
        # an invariant clause of the form `<havocked variable> == <expression not mentioning it>` defines
        # that variable: bind it to the value of the expression (structurally) instead of assuming an
        # equation about a fresh symbol -- the same fact, but later comparisons and hashes see the structure
        rest_inv = []
        for clause in inv:
            try:
                node = self.reg.parse(clause) if self.reg is not None else ast.parse(clause, mode="eval").body
            except SyntaxError:
                node = None
            if (isinstance(node, ast.Call) and isinstance(node.func, ast.Name) and node.func.id == "stream_is" and len(node.args) == 2
                    and isinstance(node.args[0], ast.Name) and node.args[0].id in defined_muts):
                st = fr.env.get(node.args[0].id)
                o = self.p.deref(st) if isinstance(st, Ref) else None
                if not isinstance(o, HStream):
                    raise Undecided("stream_is on a non-stream")
                try:
                    val = self.eval(node.args[1], fr)
                except PyExc:
                    raise PathEnd()
                o.rem = list(as_chunks(val))
                o.consumed = []          # what was read before the cut is not tracked (seek/tell after the loop: undecided)
                continue
            if (isinstance(node, ast.Compare) and len(node.ops) == 1 and isinstance(node.ops[0], ast.Eq)
                    and isinstance(node.left, ast.Name) and (node.left.id in mods or node.left.id in defined_muts) and node.left.id != index
                    and not any(isinstance(n2, ast.Name) and n2.id == node.left.id for n2 in ast.walk(node.comparators[0]))):
                try:
                    fr.env[node.left.id] = self.eval(node.comparators[0], fr)
                    continue
                except PyExc:
                    raise PathEnd()
            rest_inv.append(clause)
        self.assume_all(rest_inv, fr)
        if test():
            if pre_body:
                pre_body()
            try:
                self.exec_block(n.body, fr)
            except _Continue:
                pass
            except _Break:
                return
            if step:
                step()
            for g, e in spec.get("ghost_step", {}).items():
                fr.env[g] = self.eval_spec(e, fr)
            self.prove_all(inv, fr, tag + "/preserve")
            raise PathEnd()
        self.exec_block(n.orelse, fr)
