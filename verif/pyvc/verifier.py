import os
"""contract registry, Machine, and the per-contract verification driver."""
import ast
import importlib
import json
import time
import traceback

import z3

from .values import *  # noqa
from . import engine
from .engine import (Interp, Explorer, Undecided, PyExc, PathEnd, Infeasible, _Return, SRC, I, id_key)
from .ops import OpsMixin
from .interp import EvalMixin, Frame
from .calls import CallMixin


class Machine(OpsMixin, EvalMixin, CallMixin, Interp):
    def __init__(self, path, reg, bv=None):
        Interp.__init__(self, path, reg, bv)
        self.intrinsics = dict(reg.intrinsics) if reg is not None else {}
        self.modpow_hooks = list(reg.modpow_hooks) if reg is not None else []
        import random as _r, secrets as _s, time as _t
        self.intrinsics.setdefault(_r.Random.randint, lambda m, a, k: m.b_randint(a[1:], k))
        self.intrinsics.setdefault(_r.Random.randrange, lambda m, a, k: m.b_randbelow(a[1:], k))
        self.intrinsics.setdefault(_s.randbelow, lambda m, a, k: m.b_randbelow(a, k))
        self.intrinsics.setdefault(_s.randbits, lambda m, a, k: m.b_randbits(a, k))
        import hmac as _h, hashlib as _hl
        for f in (_h.new, _h.HMAC, _hl.new):
            self.intrinsics.setdefault(f, (lambda ff: (lambda m, a, k: m.call_builtin(ff, a, k)))(f))
        if isinstance(_hl.pbkdf2_hmac, __import__("types").FunctionType):
            self.intrinsics.setdefault(_hl.pbkdf2_hmac, lambda m, a, k: m.call_builtin(_hl.pbkdf2_hmac, a, k))
        self.intrinsics.setdefault(_h.compare_digest, lambda m, a, k: m.equal(a[0], a[1]))
        self.outcome = None
        self.old_frame = None
        self.active_exc = []
        self.top_fn = None


def native(f):
    f._pyvc_native = True
    return f


class Contract:
    def __init__(self, name, params=None, ghost=None, requires=(), ensures=(), raises=None,
                 returns=None, invariants=None, bv=None, by_contract=False, props=(),
                 setup=None, modifies=None, call_requires=None, result_maker=None, args=None,
                 timeout_ms=None, max_paths=None, method_of=None, build=None, fuel=None, note="",
                 gen=None, nl_uf=False, tiers=("quick", "thorough"), returns_expr=None, group_axioms=False,
                 int_bytes_expand=8, bcat_unit=False, bv_bytes_direct=False):
        self.bcat_unit = bcat_unit                # add  b_cat(x, empty) == x == b_cat(empty, x)  (parsing loops over suffix-recursive specs)
        self.bv_bytes_direct = bv_bytes_direct    # bit-vector mode: int.from_bytes assembles the word from the byte terms
        self.int_bytes_expand = int_bytes_expand  # int.from_bytes of an opaque string of at most this many bytes is tied to its bytes
        self.group_axioms = group_axioms          # add the commutative-monoid axioms of the abstract point group (C03.4)
        self.returns_expr = returns_expr          # call sites use this spec term as the result (must be one of the ensures)
        self.tiers = tuple(tiers)                 # tiers in which the deductive job runs (bounded companion: always)
        self.nl_uf = nl_uf                        # symbolic*symbolic products as an uninterpreted function (zn_ring reads them)
        self.gen = gen                            # callable(rng, tier) -> iterable of concrete input dicts
        self.name = name
        self.short = name.split(".", 2)[-1] if name.startswith("buidl.") else name
        self.params = dict(params or {})
        self.ghost = dict(ghost or {})
        self.requires = list(requires)
        self.ensures = list(ensures)
        self.raises = dict(raises or {})          # exception name -> condition (iff)
        self.returns = returns
        self.invariants = dict(invariants or {})
        self.bv = bv
        self.by_contract = by_contract
        self.props = tuple(props)
        self.setup = setup                        # callable(machine, env) building complex inputs
        self.modifies = dict(modifies or {})
        self.call_requires = list(call_requires if call_requires is not None else requires)
        self.result_maker = result_maker
        self.args = args                          # explicit positional argument names order
        self.timeout_ms = timeout_ms
        self.max_paths = max_paths
        self.build = build                        # concrete builder for replay: dict -> (args, kwargs)
        self.note = note
        self._fn = None

    @property
    def fn(self):
        if self._fn is None:
            self._fn = resolve(self.name.split('#')[0])
        return self._fn


def resolve(dotted):
    parts = dotted.split(".")
    for i in range(len(parts), 0, -1):
        try:
            obj = importlib.import_module(".".join(parts[:i]))
        except ModuleNotFoundError:
            continue
        for p in parts[i:]:
            import inspect
            raw = inspect.getattr_static(obj, p)
            if isinstance(raw, (classmethod, staticmethod)):
                obj = raw.__func__
            elif isinstance(raw, property):
                obj = raw.fget
            else:
                obj = getattr(obj, p)
        return obj
    raise ImportError(dotted)


class Registry:
    def __init__(self):
        self.contracts = {}
        self.by_fn = {}
        self.intrinsics = {}
        self.modpow_hooks = []
        self.axioms = []
        self._parsed = {}
        import verif.specs as specs
        self.spec_module = specs
        self.spec_globals = {"spec": specs}
        self.verifying = None

    def add(self, c):
        self.contracts[c.name] = c
        return c

    def contract_for(self, fn):
        if not self.by_fn:
            for c in self.contracts.values():
                if "#" in c.name:
                    continue
                try:
                    self.by_fn[c.fn] = c
                except Exception:
                    pass
        return self.by_fn.get(fn)

    def call_contract(self, fn, machine):
        c = self.contract_for(fn)
        if c is None or not c.by_contract:
            return None
        if machine.top_fn is fn and not machine.call_stack[1:]:
            # the function under verification itself is executed, not assumed (recursive calls
            # deeper in the stack do use the contract)
            if len(machine.call_stack) == 0:
                return None
        return c

    def loop_spec(self, fn, k):
        v = self.verifying
        if v is not None and v.invariants:
            try:
                if v.fn is fn:
                    return v.invariants.get(k)
            except Exception:
                pass
        c = self.contract_for(fn)
        if c is not None and c.invariants:
            return c.invariants.get(k)
        # invariants declared on a '#variant' contract of the same function serve inlined calls too
        inv = self.__dict__.setdefault("_inv_by_fn", None)
        if inv is None:
            inv = {}
            for cc in self.contracts.values():
                if cc.invariants:
                    try:
                        inv.setdefault(cc.fn, cc)
                    except Exception:
                        pass
            self._inv_by_fn = inv
        cc = inv.get(fn)
        return cc.invariants.get(k) if cc is not None else None

    def parse(self, expr):
        if expr not in self._parsed:
            self._parsed[expr] = ast.parse(expr.strip(), mode="eval").body
        return self._parsed[expr]

    def exc_class(self, name):
        import builtins
        return getattr(builtins, name)


REG = Registry()


def contract(name, **kw):
    return REG.add(Contract(name, **kw))


# ------------------------------------------------------------------------------------------
# model extraction
# ------------------------------------------------------------------------------------------
def snapshot(m, v):
    """freeze the structure of an input value (heap objects may be mutated later)"""
    if isinstance(v, Ref):
        o = m.p.deref(v)
        if isinstance(o, HList):
            if o.pre is not None:
                return ("$prelist", o.pre, [snapshot(m, x) for x in o.items])
            return ("$list", [snapshot(m, x) for x in o.items])
        if isinstance(o, HObj):
            return ("$obj", o.cls.__module__ + "." + o.cls.__qualname__, {k: snapshot(m, x) for k, x in o.fields.items()})
        if isinstance(o, HStream):
            return ("$stream", mk_bytes(list(o.rem)))
        if isinstance(o, HByteArray):
            return ("$bytearray", o.val)
        if isinstance(o, HDict):
            return ("$dict", [(snapshot(m, a), snapshot(m, b)) for a, b in o.items])
    if isinstance(v, tuple):
        return ("$tuple", [snapshot(m, x) for x in v])
    return v


def concretize_value(model, v, bv=None):
    def ev(t):
        return model.eval(t, model_completion=True)
    if isinstance(v, z3.ExprRef):
        r = ev(v)
        return r.as_long() if z3.is_int_value(r) or z3.is_bv_value(r) else z3.is_true(r)
    if isinstance(v, TInt):
        return {"__tint__": v.cls.__module__ + "." + v.cls.__qualname__, "value": concretize_value(model, v.val)}
    if isinstance(v, SInt):
        return ev(v.t).as_long()
    if isinstance(v, SBV):
        return ev(v.t).as_long()
    if isinstance(v, SBool):
        return z3.is_true(ev(v.t))
    if isinstance(v, SBytes):
        out = b""
        for c in v.chunks:
            if isinstance(c, bytes):
                out += c
            elif isinstance(c, IB):
                x = ev(c.t).as_long()
                out += (x % (256 ** c.w)).to_bytes(c.w, c.end)
            else:
                n = c.n if isinstance(c.n, int) else ev(c.n).as_long()
                n = max(0, min(n, 300))
                bs = []
                t = c.t
                for i in range(n):
                    if z3.is_app(t) and t.decl().eq(B_slice):
                        b = ev(B_at(t.arg(0), t.arg(1) + i))
                    else:
                        b = ev(B_at(t, I(i)))
                    bs.append(b.as_long() % 256)
                out += bytes(bs)
        return out
    if isinstance(v, tuple) and v and isinstance(v[0], str) and v[0].startswith("$"):
        tag = v[0]
        if tag == "$list":
            return [concretize_value(model, x) for x in v[1]]
        if tag == "$tuple":
            return tuple(concretize_value(model, x) for x in v[1])
        if tag == "$prelist":
            name, ln, elem = v[1][0], v[1][1], v[1][2]
            n = ev(ln).as_long() if not isinstance(ln, int) else ln
            n = max(0, min(n, 64))
            pre = [concretize_value(model, snapshot_elem(elem(I(i)))) for i in range(n)]
            return pre + [concretize_value(model, x) for x in v[2]]
        if tag == "$obj":
            if v[1].endswith("pecc.S256Point") and "_dl" in v[2]:
                return {"__point__": concretize_value(model, v[2]["_dl"])}
            return {"__class__": v[1], "fields": {k: concretize_value(model, x) for k, x in v[2].items()}}
        if tag == "$stream":
            return {"__stream__": concretize_value(model, v[1])}
        if tag == "$bytearray":
            return bytearray(concretize_value(model, v[1]))
        if tag == "$dict":
            return {"__dict__": [(concretize_value(model, a), concretize_value(model, b)) for a, b in v[1]]}
    return v


def snapshot_elem(v):
    return v


def jsonable(v):
    if isinstance(v, (bytes, bytearray)):
        return {"$bytes": bytes(v).hex()}
    if isinstance(v, bool) or v is None or isinstance(v, str):
        return v
    if isinstance(v, int):
        return {"$int": str(v)}
    if isinstance(v, float):
        return v
    if isinstance(v, tuple):
        return {"$tuple": [jsonable(x) for x in v]}
    if isinstance(v, list):
        return [jsonable(x) for x in v]
    if isinstance(v, dict):
        return {str(k): jsonable(x) for k, x in v.items()}
    return {"$repr": repr(v)}


def unjson(v):
    if isinstance(v, dict):
        if "$bytes" in v:
            return bytes.fromhex(v["$bytes"])
        if "$int" in v:
            return int(v["$int"])
        if "$tuple" in v:
            return tuple(unjson(x) for x in v["$tuple"])
        if "$repr" in v:
            return v["$repr"]
        return {k: unjson(x) for k, x in v.items()}
    if isinstance(v, list):
        return [unjson(x) for x in v]
    return v


# ------------------------------------------------------------------------------------------
# verification of one contract
# ------------------------------------------------------------------------------------------
class Result:
    def __init__(self, name, status, text="", inputs=None, note=None, secs=0.0, kind="path"):
        self.name, self.status, self.text, self.inputs, self.note, self.secs, self.kind = \
            name, status, text, inputs, note, secs, kind

    def as_dict(self):
        return {"name": self.name, "status": self.status, "clause": self.text,
                "inputs": jsonable(self.inputs) if self.inputs is not None else None,
                "note": self.note, "secs": round(self.secs, 4), "kind": self.kind}


def make_native_env(m):
    @native
    def returns(mach):
        return mach.outcome[0] == "return"

    @native
    def raises(mach, *classes):
        if mach.outcome[0] != "raise":
            return False
        if not classes:
            return True
        return any(issubclass(mach.outcome[1], c) for c in classes)
    return {"returns": returns, "raises": raises}


def verify_contract(c, reg=REG, timeout_ms=10000, max_paths=None, concrete=None):
    """-> (results, stats).  Every (clause, path) pair is one obligation."""
    results = []
    t_start = time.time()
    axioms = list(reg.axioms)
    if getattr(c, "group_axioms", False):
        from . import fieldmode as _fm
        axioms += _fm.group_axioms()
    if getattr(c, "bcat_unit", False):
        _bx = z3.Const("bcat_x", BSort)
        axioms.append(z3.ForAll([_bx], B_cat(_bx, B_empty) == _bx, patterns=[B_cat(_bx, B_empty)]))
        axioms.append(z3.ForAll([_bx], B_cat(B_empty, _bx) == _bx, patterns=[B_cat(B_empty, _bx)]))
    if getattr(c, "nl_uf", False) and getattr(c, "nl_comm_axiom", False):
        # (products are built AC-canonically by ops.nl_mul, so the quantified axiom is normally not needed)
        from .ops import NLMUL
        _x, _y = z3.Ints("nl_x nl_y")
        axioms.append(z3.ForAll([_x, _y], NLMUL(_x, _y) == NLMUL(_y, _x), patterns=[NLMUL(_x, _y)]))
    ex = Explorer(timeout_ms=c.timeout_ms or timeout_ms, max_paths=c.max_paths or max_paths or 4096,
                  axioms=axioms)
    fn = c.fn
    fname = c.name
    reg.verifying = c
    counter = {"path": 0, "returns": 0, "raises": 0}

    def body(p):
        m = Machine(p, reg, bv=c.bv)
        m.top_fn = fn
        m.nl_uf = getattr(c, "nl_uf", False)
        m.int_bytes_expand = getattr(c, "int_bytes_expand", 8)
        m.bv_bytes_direct = getattr(c, "bv_bytes_direct", False)
        pid = [None]
        seen = {}

        def on_ob(mach, name, status, text, model, note, secs):
            inputs = None
            if model is not None:
                try:
                    inputs = {k: concretize_value(model, v) for k, v in p.inputs.items()}
                except Exception as e:     # model extraction must never mask the verdict
                    inputs = {"$extract_error": repr(e)}
            k = seen.get(name, 0)
            seen[name] = k + 1
            results.append(Result("%s/p%d%s" % (name, counter["path"], ("." + str(k)) if k else ""),
                                  status, text, inputs, note, secs))
        m.on_obligation = on_ob
        env = {}
        try:
            for nme, kind in list(c.ghost.items()) + list(c.params.items()):
                if concrete is not None and nme in concrete:
                    # cross-check mode (verif.tools.crosscheck): the engine interprets code and clauses on CONCRETE values
                    env[nme] = m.import_value(concrete[nme])
                else:
                    env[nme] = m.make_sym(nme, kind)
            if c.setup:
                c.setup(m, env)
        except PyExc:
            raise PathEnd()
        m.ghost_env = dict(env)
        for nme, v in env.items():
            p.inputs[nme] = snapshot(m, v)
        senv = dict(env)
        senv.update(make_native_env(m))
        senv["spec"] = reg.spec_module
        fr = Frame(senv, reg.spec_globals, None, "<contract %s>" % fname)
        m.outcome = ("pre",)
        m.assume_all(c.requires, fr)
        m.old_frame = Frame(dict(senv), reg.spec_globals, None, "<old>")
        counter["path"] += 1
        import inspect
        node = SRC.lookup(fn)
        argnames = c.args or [a.arg for a in node.args.posonlyargs + node.args.args if a.arg in env]
        args = [env[a] for a in argnames]
        try:
            res = m.call_function(fn, args, {})
            m.outcome = ("return", res)
            counter["returns"] += 1
        except PyExc as e:
            m.outcome = ("raise", e.cls)
            res = None
            counter["raises"] += 1
        senv["result"] = res
        # raises: iff conditions
        for exc_name, cond in c.raises.items():
            cls = reg.exc_class(exc_name)
            got = m.outcome[0] == "raise" and issubclass(m.outcome[1], cls)
            m.outcome_save = m.outcome
            try:
                v = m.truth(m.eval_spec(cond, m.old_frame))
            except PyExc as e2:
                m.report("%s/raises:%s" % (fname, exc_name), "fail", cond, note="condition raises")
                continue
            want = v if got else (m.unop(ast.Not(), v))
            m.prove("%s/raises:%s" % (fname, exc_name), want, "raises(%s) iff %s" % (exc_name, cond))
        if m.outcome[0] == "raise" and c.raises:
            ok = any(issubclass(m.outcome[1], reg.exc_class(n)) for n in c.raises)
            if not ok:
                m.prove("%s/no-unexpected-raise" % fname, False, "unexpected %s" % m.outcome[1].__name__)
        m.prove_all(c.ensures, fr, fname + "/ensures")
        return m.outcome

    try:
        for p, kind, res in ex.explore(body_wrapper(body, results, fname, counter)):
            pass
    except Undecided as u:
        results.append(Result(fname + "/exploration", "undecided", "", None, str(u)))
    stats = dict(ex.stats)
    stats["wall_s"] = time.time() - t_start
    stats["paths_returning"] = counter["returns"]
    stats["paths_raising"] = counter["raises"]
    return results, stats


def body_wrapper(body, results, fname, counter):
    def run(p):
        try:
            return body(p)
        except Undecided as u:
            if os.environ.get("PYVC_TB"):
                import traceback
                traceback.print_exc()
            results.append(Result("%s/path/p%d" % (fname, counter["path"]), "undecided", "", None, str(u)))
            return None
        except (PathEnd, Infeasible):
            raise
        except z3.Z3Exception as e:
            results.append(Result("%s/path/p%d" % (fname, counter["path"]), "undecided", "", None, "z3: " + str(e)))
            return None
        except (RecursionError,) as e:
            results.append(Result("%s/path/p%d" % (fname, counter["path"]), "undecided", "", None, "recursion"))
            return None
        except Exception as e:
            tb = traceback.format_exc(limit=6)
            results.append(Result("%s/path/p%d" % (fname, counter["path"]), "error", "", None, tb))
            return None
    return run
