"""binary / unary / comparison operators of the Python subset (mixin for Interp)."""
import ast

import z3

from .values import *  # noqa
from .engine import Undecided, PyExc, I, id_key


NLMUL = z3.Function("nlmul", z3.IntSort(), z3.IntSort(), z3.IntSort())


def nl_factors(t):
    if z3.is_app(t) and t.decl().eq(NLMUL):
        return nl_factors(t.arg(0)) + nl_factors(t.arg(1))
    return [t]


def nl_decompose(t):
    """(integer coefficient, list of non-constant factors) of a product term"""
    if z3.is_int_value(t):
        return t.as_long(), []
    if z3.is_app(t) and t.decl().kind() == z3.Z3_OP_MUL:
        c, fs = 1, []
        for ch in t.children():
            c2, f2 = nl_decompose(ch)
            c *= c2
            fs += f2
        return c, fs
    return 1, nl_factors(t)


def nl_product(fs):
    """AC-canonical uninterpreted product of the factor terms"""
    fs = sorted(fs, key=lambda t: t.sexpr())
    r = fs[0]
    for f in fs[1:]:
        r = NLMUL(r, f)
    return r


def nl_mul(ta, tb):
    ca, fa = nl_decompose(ta)
    cb, fb = nl_decompose(tb)
    fs = fa + fb
    if not fs:
        return z3.IntVal(ca * cb)
    p = nl_product(fs)
    c = ca * cb
    return p if c == 1 else z3.IntVal(c) * p


def _is_pint(v):
    return isinstance(v, int)       # includes bool


class OpsMixin:
    # ------------------------------------------------------------------ arithmetic
    def binop(self, op, a, b):
        opn = type(op).__name__
        if isinstance(a, TInt) or isinstance(b, TInt):
            d = {"Add": "__add__", "Sub": "__sub__", "Mult": "__mul__", "BitAnd": "__and__", "BitOr": "__or__"}.get(opn)
            if isinstance(a, TInt) and d and any(d in vars(c) for c in a.cls.__mro__ if c not in (int, object)):
                return self.call_function(getattr(a.cls, d), [a, b], {})
            a = a.val if isinstance(a, TInt) else a
            b = b.val if isinstance(b, TInt) else b
        # bytes / str / list / tuple structural operators
        if is_bytes(a) or is_bytes(b):
            return self.bytes_binop(opn, a, b)
        if isinstance(a, str) or isinstance(b, str):
            if isinstance(a, str) and isinstance(b, str) and opn == "Add":
                return a + b
            if isinstance(a, str) and _is_pint(b) and opn == "Mult":
                return a * b
            if isinstance(a, str) and opn == "Mod":
                # printf-style formatting: computed when every argument is concrete, otherwise an unmodelled message text
                parts = b if isinstance(b, tuple) else (b,)
                if any(isinstance(x, (Sym, Ref)) for x in parts):
                    return SMsg()
                try:
                    return a % b
                except (TypeError, ValueError) as e:
                    raise PyExc(type(e))
            raise Undecided("str operator %s on %r %r" % (opn, a, b))
        if isinstance(a, tuple) and isinstance(b, tuple) and opn == "Add":
            return a + b
        if isinstance(a, Ref) or isinstance(b, Ref):
            return self.ref_binop(op, opn, a, b)
        if isinstance(a, tuple) and _is_pint(b) and opn == "Mult":
            return a * b
        if isinstance(a, float) or isinstance(b, float):
            return self.float_binop(opn, a, b)
        if isinstance(a, SBool):
            a = SInt(self.it(a)) if self.bv is None else a
        if isinstance(b, SBool):
            b = SInt(self.it(b)) if self.bv is None else b
        if _is_pint(a) and _is_pint(b):
            return self.conc_binop(opn, int(a), int(b))
        if not (self.is_int(a) and self.is_int(b)):
            raise Undecided("operator %s on %r, %r" % (opn, a, b))
        if self.bv is not None:
            return self.bv_binop(op, a, b)
        return self.int_binop(opn, a, b)

    def conc_binop(self, opn, a, b):
        try:
            if opn == "Add":
                return a + b
            if opn == "Sub":
                return a - b
            if opn == "Mult":
                return a * b
            if opn == "FloorDiv":
                return a // b
            if opn == "Mod":
                return a % b
            if opn == "Pow":
                if b < 0:
                    return a ** b      # float, as CPython
                if b > 100000:
                    raise Undecided("huge power")
                return a ** b
            if opn == "LShift":
                if b > 100000:
                    raise Undecided("huge shift")
                return a << b
            if opn == "RShift":
                return a >> b
            if opn == "BitAnd":
                return a & b
            if opn == "BitOr":
                return a | b
            if opn == "BitXor":
                return a ^ b
            if opn == "Div":
                return a / b
        except ZeroDivisionError:
            raise PyExc(ZeroDivisionError)
        except ValueError:
            raise PyExc(ValueError)
        raise Undecided("operator " + opn)

    def float_binop(self, opn, a, b):
        """floats only as exact rationals compared with ints (N / 2 idiom); no float arithmetic"""
        raise Undecided("float arithmetic")

    def int_binop(self, opn, a, b):
        ta, tb = self.it(a), self.it(b)
        if opn == "Add":
            return self.mkint(ta + tb)
        if opn == "Sub":
            return self.mkint(ta - tb)
        if opn == "Mult":
            if getattr(self, "nl_uf", False) and not (isinstance(a, int) or isinstance(b, int)):
                r = nl_mul(ta, tb)
                # ground AC instances: congruent-but-differently-written factors sort differently
                _, fs = nl_decompose(r)
                if 2 <= len(fs) <= 3:
                    import itertools
                    base = nl_product(fs)
                    for perm in itertools.permutations(fs):
                        t = perm[0]
                        for f in perm[1:]:
                            t = NLMUL(t, f)
                        if not t.eq(base):
                            self.p.assume(t == base)
                return self.mkint(r)
            return self.mkint(ta * tb)
        if opn in ("FloorDiv", "Mod"):
            if _is_pint(b):
                if b == 0:
                    raise PyExc(ZeroDivisionError)
                if b > 0:
                    if opn == "Mod" and getattr(self, "nl_uf", False) and z3.is_app(ta) \
                            and ta.decl().kind() == z3.Z3_OP_UNINTERPRETED \
                            and self.p.implied(z3.And(ta >= 0, ta < b)):
                        return self.mkint(ta)          # already reduced
                    return self.mkint(ta / tb if opn == "FloorDiv" else ta % tb)
            if not self.p.implied(tb > 0):
                if self.p.branch(tb == 0):
                    raise PyExc(ZeroDivisionError)
                if not self.p.branch(tb > 0):
                    q = (-ta) / (-tb)
                    return self.mkint(q if opn == "FloorDiv" else ta - tb * q)
            return self.mkint(ta / tb if opn == "FloorDiv" else ta % tb)
        if opn == "Div":
            raise Undecided("true division on symbolic operands")
        if opn == "Pow":
            if _is_pint(b):
                if b < 0:
                    raise Undecided("negative power")
                if b <= 8:
                    r = I(1)
                    for _ in range(b):
                        r = r * ta
                    return self.mkint(r)
                raise Undecided("symbolic base with large exponent")
            # symbolic exponent: enumerate its values
            e = self.p.concretize(tb)
            return self.binop(ast.Pow(), a, e)
        if opn == "LShift":
            if not _is_pint(b):
                b = self.p.concretize(tb)
            if b < 0:
                raise PyExc(ValueError)
            return self.mkint(ta * I(1 << b))
        if opn == "RShift":
            if not _is_pint(b):
                b = self.p.concretize(tb)
            if b < 0:
                raise PyExc(ValueError)
            return self.mkint(ta / I(1 << b))
        if opn in ("BitAnd", "BitOr", "BitXor"):
            return self.int_bitop(opn, a, b)
        raise Undecided("operator " + opn)

    def int_bitop(self, opn, a, b):
        """bit operations in Int mode: one operand must be a non-negative constant (or both
        provably small); encoded by bit extraction  bit_j(x) = (x div 2^j) mod 2, which is
        exact for Python's two's-complement semantics on all integers."""
        if _is_pint(a) and not _is_pint(b):
            a, b = b, a
        if not _is_pint(b):
            return self.int_bitop_sym(opn, a, b)
        c = int(b)
        x = self.it(a)
        if c < 0:
            raise Undecided("bit operation with negative constant")
        if opn == "BitAnd":
            if c & (c + 1) == 0:           # 2^k - 1
                return self.mkint(x % I(c + 1))
            return self.mkint(z3.Sum([((x / I(1 << j)) % 2) * I(1 << j) for j in range(c.bit_length()) if (c >> j) & 1] or [I(0)]))
        bits = [j for j in range(c.bit_length()) if (c >> j) & 1]
        if opn == "BitOr":
            return self.mkint(x + z3.Sum([(1 - (x / I(1 << j)) % 2) * I(1 << j) for j in bits] or [I(0)]))
        return self.mkint(x + z3.Sum([(1 - 2 * ((x / I(1 << j)) % 2)) * I(1 << j) for j in bits] or [I(0)]))

    def int_bitop_sym(self, opn, a, b):
        """both symbolic: need proven bounds 0 <= a,b < 2^k (k <= 64): bit-blast through BV"""
        ta, tb = self.it(a), self.it(b)
        if getattr(self, "nl_uf", False):
            # algebraic contracts: bit operations on two symbolic operands are uninterpreted
            # (commutative by argument order); only determinism is used
            x, y = sorted([ta, tb], key=lambda t: t.sexpr())
            f = z3.Function("bitop_" + opn, z3.IntSort(), z3.IntSort(), z3.IntSort())
            r = f(x, y)
            self.p.assume(r >= 0)
            for k in (8,):
                if self.p.implied(z3.And(ta >= 0, ta < 256, tb >= 0, tb < 256)):
                    self.p.assume(r < 256)
            return self.mkint(r)
        for k in (8, 16, 32, 64, 128, 256, 512):
            lim = I(1 << k)
            if self.p.implied(z3.And(ta >= 0, ta < lim, tb >= 0, tb < lim)):
                xa, xb = z3.Int2BV(ta, k), z3.Int2BV(tb, k)
                r = {"BitAnd": xa & xb, "BitOr": xa | xb, "BitXor": xa ^ xb}[opn]
                res = z3.BV2Int(r)
                return self.mkint(res)
        raise Undecided("bit operation on unbounded symbolic integers")

    def bytes_binop(self, opn, a, b):
        if opn == "Add" and is_bytes(a) and is_bytes(b):
            return mk_bytes(as_chunks(a) + as_chunks(b))
        if opn == "Mult":
            if is_bytes(b):
                a, b = b, a
            if isinstance(b, (SInt, SBV)):
                b = self.p.concretize(self.it(b))
            if _is_pint(b):
                return mk_bytes(as_chunks(a) * max(int(b), 0))
        if opn == "Add" and isinstance(b, Ref) and isinstance(self.p.deref(b), HByteArray):
            return self.binop(ast.Add(), a, self.bytes_of_bytearray(b))
        if opn == "Add" and isinstance(a, Ref) and isinstance(self.p.deref(a), HByteArray):
            return self.binop(ast.Add(), self.bytes_of_bytearray(a), b)
        if opn == "Add":
            raise PyExc(TypeError)
        if opn == "Mod":
            raise Undecided("bytes % formatting")
        raise Undecided("bytes operator %s" % opn)

    def bytes_of_bytearray(self, r):
        return self.p.deref(r).val

    def ref_binop(self, op, opn, a, b):
        oa = self.p.deref(a) if isinstance(a, Ref) else None
        ob = self.p.deref(b) if isinstance(b, Ref) else None
        if isinstance(oa, HList) and isinstance(ob, HList) and opn == "Add":
            if ob.pre is not None:
                raise Undecided("list + symbolic-prefix list")
            return self.p.alloc(HList(oa.items + ob.items, oa.pre))
        if isinstance(oa, HList) and opn == "Add" and isinstance(b, (list, tuple)):
            return self.p.alloc(HList(oa.items + list(b), oa.pre))
        if isinstance(oa, HList) and opn == "Mult" and _is_pint(b) and oa.pre is None:
            return self.p.alloc(HList(oa.items * b))
        if isinstance(ob, HList) and opn == "Mult" and _is_pint(a) and ob.pre is None:
            return self.p.alloc(HList(ob.items * a))
        if isinstance(oa, HByteArray) and opn == "Add":
            return self.binop(op, self.bytes_of_bytearray(a), b)
        # user-defined operators
        dunder = {"Add": "__add__", "Sub": "__sub__", "Mult": "__mul__", "Div": "__truediv__",
                  "Pow": "__pow__", "FloorDiv": "__floordiv__", "Mod": "__mod__"}.get(opn)
        if isinstance(oa, HObj) and dunder and hasattr(oa.cls, dunder):
            return self.call_function(getattr(oa.cls, dunder), [a, b], {})
        rd = {"Add": "__radd__", "Mult": "__rmul__", "Sub": "__rsub__"}.get(opn)
        if isinstance(ob, HObj) and rd and hasattr(ob.cls, rd):
            return self.call_function(getattr(ob.cls, rd), [b, a], {})
        raise Undecided("operator %s on heap values" % opn)

    def unop(self, op, v):
        opn = type(op).__name__
        if opn == "Not":
            t = self.truth(v)
            if isinstance(t, bool):
                return not t
            return self.mkbool(z3.Not(t.t))
        if opn == "USub":
            if _is_pint(v):
                return -int(v)
            if self.bv is not None:
                raise Undecided("bv: negation")
            if isinstance(v, Ref):
                o = self.p.deref(v)
                if isinstance(o, HObj) and hasattr(o.cls, "__neg__"):
                    return self.call_function(o.cls.__neg__, [v], {})
            return self.mkint(-self.it(v))
        if opn == "UAdd":
            return v
        if opn == "Invert":
            if _is_pint(v):
                return ~int(v)
            return self.mkint(-self.it(v) - 1)
        raise Undecided("unary " + opn)

    # ------------------------------------------------------------------ comparison
    def compare_vals(self, opn, a, b):
        """-> bool | SBool"""
        if isinstance(a, TInt) or isinstance(b, TInt):
            d = {"Lt": "__lt__", "LtE": "__le__", "Gt": "__gt__", "GtE": "__ge__", "Eq": "__eq__", "NotEq": "__ne__"}.get(opn)
            refl = {"Lt": "__gt__", "LtE": "__ge__", "Gt": "__lt__", "GtE": "__le__", "Eq": "__eq__", "NotEq": "__ne__"}.get(opn)

            def user(t, nm):
                return nm is not None and isinstance(t, TInt) and any(nm in vars(c) for c in t.cls.__mro__ if c not in (int, object))
            if opn not in ("Is", "IsNot", "In", "NotIn"):
                if user(a, d):
                    return self.truth(self.call_function(getattr(a.cls, d), [a, b], {}))
                if user(b, refl) and not isinstance(a, TInt):
                    return self.truth(self.call_function(getattr(b.cls, refl), [b, a], {}))
                a = a.val if isinstance(a, TInt) else a
                b = b.val if isinstance(b, TInt) else b
        if opn in ("Is", "IsNot"):
            r = self.identical(a, b)
            return r if opn == "Is" else (not r)
        if opn in ("In", "NotIn"):
            r = self.contains(b, a)
            if opn == "In":
                return r
            return (not r) if isinstance(r, bool) else self.mkbool(z3.Not(r.t))
        if opn == "NotEq":
            r = self.compare_vals("Eq", a, b)
            return (not r) if isinstance(r, bool) else self.mkbool(z3.Not(r.t))
        if isinstance(a, float) or isinstance(b, float):
            return self.float_compare(opn, a, b)
        if isinstance(a, SBool) and isinstance(b, (bool, SBool)) and opn == "Eq":
            return self.mkbool(a.t == self.bt(b))
        if isinstance(b, SBool) and isinstance(a, bool) and opn == "Eq":
            return self.mkbool(b.t == self.bt(a))
        ia, ib = self.is_int(a) or isinstance(a, SBool), self.is_int(b) or isinstance(b, SBool)
        if ia and ib:
            if _is_pint(a) and _is_pint(b):
                return {"Eq": a == b, "Lt": a < b, "LtE": a <= b, "Gt": a > b, "GtE": a >= b}[opn]
            if self.bv is not None:
                return self.bv_compare(opn, a, b)
            ta, tb = self.it(a), self.it(b)
            if opn == "Eq" and getattr(self, "nl_uf", False):
                r = self.mod_eq(ta, tb)
                if r is not None:
                    return self.mkbool(r)
            f = {"Eq": lambda x, y: x == y, "Lt": lambda x, y: x < y, "LtE": lambda x, y: x <= y,
                 "Gt": lambda x, y: x > y, "GtE": lambda x, y: x >= y}[opn]
            return self.mkbool(f(ta, tb))
        if opn == "Eq":
            return self.equal(a, b)
        if is_bytes(a) and is_bytes(b):
            return self.bytes_order(opn, a, b)
        if isinstance(a, (str, tuple)) and type(a) is type(b):
            try:
                return {"Lt": a < b, "LtE": a <= b, "Gt": a > b, "GtE": a >= b}[opn]
            except TypeError:
                raise Undecided("ordering of tuples with symbolic members")
        if isinstance(a, Ref):
            o = self.p.deref(a)
            d = {"Lt": "__lt__", "LtE": "__le__", "Gt": "__gt__", "GtE": "__ge__"}[opn]
            if isinstance(o, HObj) and hasattr(o.cls, d) and getattr(o.cls, d) is not getattr(object, d):
                return self.truth(self.call_function(getattr(o.cls, d), [a, b], {}))
        raise Undecided("comparison %s of %r and %r" % (opn, a, b))

    def mod_eq(self, ta, tb):
        """equality of two residues modulo the curve order N or the field prime P, decided on
        polynomial normal forms (zn_ring); None when the terms are not residues of one modulus"""
        from . import zn
        from .theories import P as _P, N as _N

        def modulus(t):
            t = z3.simplify(t)
            if z3.is_app(t) and t.decl().kind() == z3.Z3_OP_MOD and z3.is_int_value(t.arg(1)):
                return t.arg(1).as_long()
            return None
        ma, mb = modulus(ta), modulus(tb)
        M = ma or mb
        if M not in (_P, _N):
            return None
        for t, mm in ((ta, ma), (tb, mb)):
            if mm is None and not (z3.is_int_value(t) and 0 <= t.as_long() < M):
                # a plain term counts as a residue when the path condition bounds it by the modulus
                if z3.is_int_value(t) or not self.p.implied(z3.And(t >= 0, t < M)):
                    return None
            if mm is not None and mm != M:
                return None
        nz = zn.normalizer(self.p, M)
        pa, pb = nz.poly(z3.simplify(ta)), nz.poly(z3.simplify(tb))
        if pa.key() == pb.key():
            return True
        # both denote the same residues: record the equivalence as a lemma, keep the raw comparison
        self.p.assume((ta == tb) == (nz.term_mod(pa) == nz.term_mod(pb)))
        return None

    def float_compare(self, opn, a, b):
        """Python compares int with float exactly; a float constant is an exact rational."""
        from fractions import Fraction
        if isinstance(a, float) and isinstance(b, float) or (_is_pint(a) or _is_pint(b)) and not isinstance(a, Sym) and not isinstance(b, Sym):
            return {"Eq": a == b, "Lt": a < b, "LtE": a <= b, "Gt": a > b, "GtE": a >= b}[opn]
        flip = {"Lt": "Gt", "LtE": "GtE", "Gt": "Lt", "GtE": "LtE", "Eq": "Eq"}
        if isinstance(a, float):
            a, b, opn = b, a, flip[opn]
        fr = Fraction(b)
        if fr.denominator != 1:
            # x < p/q  <=>  q*x < p
            ta, tb = self.it(a) * I(fr.denominator), I(fr.numerator)
        else:
            ta, tb = self.it(a), I(fr.numerator)
        f = {"Eq": lambda x, y: x == y, "Lt": lambda x, y: x < y, "LtE": lambda x, y: x <= y,
             "Gt": lambda x, y: x > y, "GtE": lambda x, y: x >= y}[opn]
        return self.mkbool(f(ta, tb))

    def bytes_order(self, opn, a, b):
        if isinstance(a, bytes) and isinstance(b, bytes):
            return {"Lt": a < b, "LtE": a <= b, "Gt": a > b, "GtE": a >= b}[opn]
        ca, cb = as_chunks(a), as_chunks(b)
        if self.total_concrete(ca) and self.total_concrete(cb):
            la, lb = sum(map(chunk_len, ca)), sum(map(chunk_len, cb))
            if la == lb and la <= 70:
                va = self.it(self.with_int_mode(lambda: self.int_from_bytes(a, "big")))
                vb = self.it(self.with_int_mode(lambda: self.int_from_bytes(b, "big")))
                f = {"Lt": lambda x, y: x < y, "LtE": lambda x, y: x <= y,
                     "Gt": lambda x, y: x > y, "GtE": lambda x, y: x >= y}[opn]
                return self.mkbool(f(va, vb))
        raise Undecided("ordering of symbolic byte strings")

    def with_int_mode(self, f):
        old, self.bv = self.bv, None
        try:
            return f()
        finally:
            self.bv = old

    def identical(self, a, b):
        if a is None or b is None:
            if isinstance(a, Sym) or isinstance(b, Sym):
                return False
            return a is b
        if isinstance(a, bool) or isinstance(b, bool):
            if isinstance(a, bool) and isinstance(b, bool):
                return a == b
            if isinstance(a, SBool) or isinstance(b, SBool):
                r = self.compare_vals("Eq", a, b)
                return r
            return False
        if isinstance(a, Ref) or isinstance(b, Ref):
            return a == b
        if isinstance(a, type) or isinstance(b, type):
            return a is b
        if isinstance(a, SBool):
            return False
        return self.equal(a, b)

    def equal(self, a, b):
        """Python == on non-numeric values -> bool | SBool"""
        if a is None or b is None:
            return a is None and b is None
        if is_bytes(a) and is_bytes(b):
            r = self.bytes_eq(a, b)
            return r if isinstance(r, bool) else self.mkbool(r)
        if isinstance(a, str) and isinstance(b, str):
            return a == b
        if isinstance(a, tuple) and isinstance(b, tuple):
            if len(a) != len(b):
                return False
            return self.all_equal(a, b)
        if isinstance(a, Ref) and isinstance(b, Ref):
            oa, ob = self.p.deref(a), self.p.deref(b)
            if isinstance(oa, HList) and isinstance(ob, HList):
                if oa.pre is None and ob.pre is None:
                    if len(oa.items) != len(ob.items):
                        return False
                    return self.all_equal(oa.items, ob.items)
                if oa.pre is not None and ob.pre is not None and oa.pre[0].eq(ob.pre[0]):
                    return self.prefix_lists_equal(oa, ob)
                if (oa.pre is None) != (ob.pre is None):
                    # an explicit list A against  base[:k] + B:  equal iff k == |A| - |B| and the elements agree position by position
                    pl, ex_ = (ob, oa) if oa.pre is None else (oa, ob)
                    need = len(ex_.items) - len(pl.items)
                    if need < 0:
                        return False
                    conj = [pl.pre[1] == need]
                    pairs = [(ex_.items[i], pl.pre[2](I(i))) for i in range(need)] + list(zip(ex_.items[need:], pl.items))
                    if z3.is_false(z3.simplify(conj[0])):
                        return False
                    for x, y in pairs:
                        r = self.compare_vals("Eq", x, y)
                        if r is False:
                            return False
                        if r is not True:
                            conj.append(r.t)
                    return self.mkbool(z3.And(conj))
                raise Undecided("equality of symbolic-prefix lists")
            if isinstance(oa, HObj):
                f = getattr(oa.cls, "__eq__", None)
                if f is not None and f is not object.__eq__:
                    return self.truth(self.call_function(f, [a, b], {}))
                return a == b
            if isinstance(oa, HByteArray) and isinstance(ob, HByteArray):
                return self.equal(self.bytes_of_bytearray(a), self.bytes_of_bytearray(b))
            return a == b
        if isinstance(a, Ref):
            oa = self.p.deref(a)
            if isinstance(oa, HObj):
                f = getattr(oa.cls, "__eq__", None)
                if f is not None and f is not object.__eq__:
                    return self.truth(self.call_function(f, [a, b], {}))
            if isinstance(oa, HByteArray) and is_bytes(b):
                return self.equal(self.bytes_of_bytearray(a), b)
            if isinstance(oa, HList) and isinstance(b, (list, tuple)):
                if isinstance(b, tuple):
                    return False
                if oa.pre is None:
                    return len(oa.items) == len(b) and self.all_equal(oa.items, b)
            return False
        if isinstance(b, Ref):
            return self.equal(b, a)
        if isinstance(a, (type, types_fn)) or isinstance(b, (type, types_fn)):
            return a is b
        # different kinds (bytes vs int, str vs bytes, ...)
        ka, kb = self.kind(a), self.kind(b)
        if ka != kb:
            return False
        if ka == "int":
            return self.compare_vals("Eq", a, b)
        try:
            return a == b
        except Exception:
            raise Undecided("equality of %r and %r" % (a, b))

    def kind(self, v):
        if self.is_int(v) or isinstance(v, SBool):
            return "int"
        if is_bytes(v):
            return "bytes"
        if isinstance(v, str):
            return "str"
        if isinstance(v, tuple):
            return "tuple"
        if v is None:
            return "none"
        return type(v).__name__

    def prefix_lists_equal(self, oa, ob):
        """two views  base[:ka] + A  and  base[:kb] + B  of the SAME symbolic list: equal iff the total lengths agree and the
        explicit items of the longer tail equal the base elements they sit on"""
        ka, kb = oa.pre[1], ob.pre[1]
        A, B = oa.items, ob.items
        same_k = z3.simplify(ka == kb)
        if z3.is_true(same_k):
            if len(A) != len(B):
                return False
            return self.all_equal(A, B)
        if A and B:
            raise Undecided("equality of symbolic-prefix lists with explicit items on both sides")
        if B:
            oa, ob, ka, kb, A, B = ob, oa, kb, ka, B, A
        # now B == []:  base[:ka] + A  ==  base[:kb]   <=>  ka + |A| == kb  and  A[j] == base[ka + j]
        conj = [ka + len(A) == kb]
        for j, x in enumerate(A):
            r = self.compare_vals("Eq", x, oa.pre[2](z3.simplify(ka + j)))
            if r is False:
                return False
            if r is not True:
                conj.append(r.t)
        return self.mkbool(z3.And(conj))

    def all_equal(self, xs, ys):
        conj = []
        for x, y in zip(xs, ys):
            r = self.compare_vals("Eq", x, y)
            if r is False:
                return False
            if r is not True:
                conj.append(r.t)
        if not conj:
            return True
        return self.mkbool(z3.And(conj))

    def contains(self, container, x):
        if isinstance(container, Ref):
            o = self.p.deref(container)
            if isinstance(o, HList):
                if o.pre is not None:
                    raise Undecided("`in` on symbolic-prefix list")
                items = o.items
            elif isinstance(o, HDict):
                items = [k for k, _ in o.items]
            elif isinstance(o, HObj) and hasattr(o.cls, "__contains__"):
                return self.truth(self.call_function(o.cls.__contains__, [container, x], {}))
            else:
                raise Undecided("`in` on %r" % (o,))
        elif isinstance(container, (tuple, list, set, frozenset, dict, range)):
            if not isinstance(x, (Sym, Ref)):
                try:
                    return x in container
                except TypeError:
                    pass
            items = list(container)
        elif isinstance(container, str):
            if isinstance(x, str):
                return x in container
            raise Undecided("symbolic `in` str")
        elif isinstance(container, bytes) and isinstance(x, (bytes, int)):
            return x in container
        elif is_bytes(container) and self.is_int(x):
            chunks = as_chunks(container)
            if self.total_concrete(chunks):
                n = sum(map(chunk_len, chunks))
                if n <= 64:
                    items = [self.bytes_index(container, j) for j in range(n)]
                else:
                    raise Undecided("`in` on long symbolic bytes")
            else:
                raise Undecided("`in` on symbolic-length bytes")
        else:
            raise Undecided("`in` on %r" % (container,))
        disj = []
        for it_ in items:
            r = self.compare_vals("Eq", x, it_)
            if r is True:
                return True
            if r is not False:
                disj.append(r.t)
        if not disj:
            return False
        return self.mkbool(z3.Or(disj))


import types as _types
types_fn = (_types.FunctionType, _types.BuiltinFunctionType, _types.ModuleType)
