"""Discrete-log theory of secp256k1 (DESIGN section 3, A-PRIME) and Fermat inverses.

A point is pt(a), a in Z_N (pt(0) = infinity, G = pt(1)).  k*P, P+Q, -P are arithmetic in Z_N
(normalised by zn_ring); the affine coordinates of pt(a) are uninterpreted functions Xc, Yc of
the *sign-canonical* scalar with the facts  x(-a) = x(a),  y(-a) = P - y(a),  0 <= x,y < P,
y != 0 (no 2-torsion), and  x(a) = x(b) => a = +-b  instantiated for the scalars on the path.
That the real Point.__add__ / __rmul__ implement this group is property C03's business
(obligations there); here it is the stated assumption that lets C01/C02/C08/C12/C13 reason."""
import z3

from .values import *  # noqa
from .engine import Undecided, PyExc, I
from . import zn

N = zn.N
P = 2**256 - 2**32 - 977
GX = 0x79BE667EF9DCBBAC55A06295CE870B07029BFCDB2DCE28D959F2815B16F81798
GY = 0x483ADA7726A3C4655DA4FBFC0E1108A8FD17B448A68554199C47D08FFB10D4B8

Xc = z3.Function("curve_x", z3.IntSort(), z3.IntSort())
Yc = z3.Function("curve_y", z3.IntSort(), z3.IntSort())
QR = z3.Function("is_square_mod_p", z3.IntSort(), z3.BoolSort())


def _pecc():
    from buidl import pecc
    return pecc


def _field(m, num):
    pecc = _pecc()
    return m.p.alloc(HObj(pecc.S256Field, {"num": num, "prime": P}))


def scalar_of(m, ref):
    """dlog (z3 Int term in [0, N)) of an S256Point heap object"""
    o = m.p.deref(ref)
    if "_dl" in o.fields:
        return o.fields["_dl"]
    x = o.fields.get("x")
    if x is None:
        dl = I(0)
    else:
        xn = m.getattr(x, "num")
        yn = m.getattr(o.fields["y"], "num")
        if isinstance(xn, int) and isinstance(yn, int) and xn == GX and yn == GY:
            dl = I(1)
            m.p.assume(z3.And(Xc(I(1)) == GX, Yc(I(1)) == GY))
        else:
            a = m.p.fresh("dlog")
            m.p.assume(z3.And(a >= 1, a < N, Xc(a) == m.it(xn), Yc(a) == m.it(yn)))
            register_scalar(m, a)
            dl = a
    o.fields["_dl"] = dl
    return dl


def register_scalar(m, canon):
    """range facts and pairwise injectivity instances for a canonical scalar term"""
    seen = m.p.__dict__.setdefault("_curve_scalars", [])
    for c in seen:
        if c.eq(canon):
            return
    # 0 < x < P (x = 0 would need y^2 = 7, and 7 is a quadratic non-residue mod P: checked in setup),
    # 0 < y < P (no point of order 2: -7 is not a cube mod P)
    m.p.assume(z3.And(Xc(canon) >= 1, Xc(canon) < P, Yc(canon) >= 1, Yc(canon) < P))
    if getattr(m, "nl_uf", False):
        # the point is on the curve: y^2 = x^3 + 7 (mod P), written with the canonical products
        # the engine builds for FieldElement arithmetic; hence x^3 + 7 is a square
        from .ops import nl_mul
        x3 = nl_mul(nl_mul(Xc(canon), Xc(canon)), Xc(canon))
        y2 = nl_mul(Yc(canon), Yc(canon))
        rhs = z3.simplify((z3.simplify(x3 % P) + 7) % P)
        m.p.assume(z3.simplify(y2 % P) == rhs)
        m.p.assume(QR(rhs))
    if getattr(m, "curve_injectivity", False):
        # x(a) = x(b) => a = +-b, instantiated pairwise (only for contracts that ask for it:
        # every instance adds two residue constraints over 256-bit terms)
        for c in seen:
            m.p.assume(z3.Implies(z3.And(Xc(c) == Xc(canon), c % N != 0, canon % N != 0),
                                  z3.Or((c - canon) % N == 0, (c + canon) % N == 0)))
            m.p.assume(z3.Implies(z3.And(Xc(c) == Xc(canon), Yc(c) == Yc(canon), c % N != 0, canon % N != 0),
                                  (c - canon) % N == 0))
    seen.append(canon)
    if not any(c.eq(I(1)) for c in seen):
        seen.append(I(1))
        m.p.assume(z3.And(Xc(I(1)) == GX, Yc(I(1)) == GY))
        register_scalar(m, canon) if False else None


def mk_point(m, scalar_term):
    """the abstract S256Point pt(scalar_term mod N)"""
    pecc = _pecc()
    nz = zn.normalizer(m.p)
    poly, canon, sigma = nz.canonical(z3.simplify(scalar_term))
    a_f, b_f = _field(m, 0), _field(m, 7)
    if poly.is_zero() or m.p.branch(canon % N == 0):
        if not poly.is_zero():
            nz.add_zero(poly)       # later scalars on this path are reduced modulo this fact
            # scalars registered earlier may now have a smaller normal form: tie the two names together
            for (p0, c0, s0) in list(m.p.__dict__.get("_curve_polys", [])):
                p1 = nz.reduce(p0)
                if p1.key() != p0.key() and not p1.is_zero():
                    _, c1, s1 = nz.canonical_poly(p1)
                    register_scalar(m, c1)
                    if s0 == s1:
                        m.p.assume(z3.And(Xc(c0) == Xc(c1), Yc(c0) == Yc(c1)))
                    else:
                        m.p.assume(z3.And(Xc(c0) == Xc(c1), Yc(c0) == P - Yc(c1)))
                    m.p._curve_polys.append((p1, c1, s1))
        return m.p.alloc(HObj(pecc.S256Point, {"x": None, "y": None, "a": a_f, "b": b_f, "_dl": I(0)}))
    register_scalar(m, canon)
    m.p.__dict__.setdefault("_curve_polys", []).append((poly, canon, sigma))
    xt = Xc(canon)
    yt = Yc(canon) if sigma > 0 else P - Yc(canon)
    dl = canon % N if sigma > 0 else (-canon) % N
    par = m.mkint(yt % 2)
    return m.p.alloc(HObj(pecc.S256Point, {"x": _field(m, m.mkint(xt)), "y": _field(m, m.mkint(yt)),
                                            "a": a_f, "b": b_f, "parity": par, "_dl": z3.simplify(dl)}))


def _is_s256(m, v):
    pecc = _pecc()
    return isinstance(v, Ref) and isinstance(m.p.deref(v), HObj) and issubclass(m.p.deref(v).cls, pecc.S256Point)


def i_rmul(m, args, kwargs):
    self, coef = args[0], args[1]
    if not _is_s256(m, self):
        return NotImplemented
    if isinstance(coef, (Ref,)) or not m.is_int(coef):
        raise PyExc(TypeError)
    return mk_point(m, m.it(coef) * scalar_of(m, self))


def i_add(m, args, kwargs):
    self, other = args[0], args[1]
    if not _is_s256(m, self):
        return NotImplemented
    if m.is_int(other) and not isinstance(other, bool):
        return mk_point(m, scalar_of(m, self) + m.it(other))
    if _is_s256(m, other):
        return mk_point(m, scalar_of(m, self) + scalar_of(m, other))
    raise PyExc(AttributeError)


# ---------------------------------------------------------------------------- spec.curve intrinsics
def s_pt(m, args, kwargs):
    return args[0]


def s_mul_G(m, args, kwargs):
    return mk_point(m, m.it(args[0]))


def s_mul(m, args, kwargs):
    p = args[1]
    if p is None:
        return None
    return mk_point(m, m.it(args[0]) * scalar_of(m, p))


def _sc(m, p):
    return I(0) if p is None else scalar_of(m, p)


def s_add(m, args, kwargs):
    return mk_point(m, _sc(m, args[0]) + _sc(m, args[1]))


def s_is_inf(m, args, kwargs):
    p = args[0]
    if p is None:
        return True
    return m.p.deref(p).fields.get("x") is None


def s_x_of(m, args, kwargs):
    p = args[0]
    if p is None or m.p.deref(p).fields.get("x") is None:
        raise PyExc(TypeError)
    return m.getattr(m.p.deref(p).fields["x"], "num")


def s_y_of(m, args, kwargs):
    p = args[0]
    if p is None or m.p.deref(p).fields.get("y") is None:
        raise PyExc(TypeError)
    return m.getattr(m.p.deref(p).fields["y"], "num")


def s_has_even_y(m, args, kwargs):
    y = s_y_of(m, args, kwargs)
    return m.compare_vals("Eq", m.binop(__import__("ast").Mod(), y, 2), 0)


def s_same(m, args, kwargs):
    a, b = args
    ia, ib = s_is_inf(m, [a], {}), s_is_inf(m, [b], {})
    if ia or ib:
        return ia and ib
    ex = m.compare_vals("Eq", s_x_of(m, [a], {}), s_x_of(m, [b], {}))
    ey = m.compare_vals("Eq", s_y_of(m, [a], {}), s_y_of(m, [b], {}))
    return m.mkbool(z3.And(m.bt(ex), m.bt(ey)))


def s_on_curve(m, args, kwargs):
    x, y = m.it(args[0]), m.it(args[1])
    return m.mkbool(z3.And(x >= 0, x < P, y >= 0, y < P, (y * y - x * x * x - 7) % P == 0))


def s_lift_x(m, args, kwargs):
    """even-y point with the given x, or None; existence is the predicate QR(x^3+7 mod P)"""
    x = m.it(args[0])
    if not m.p.branch(z3.And(x >= 0, x < P)):
        return None
    # a point with this x-coordinate already on the path: lift_x is that point or its negation
    for c0 in m.p.__dict__.get("_curve_scalars", []):
        if z3.simplify(Xc(c0)).eq(z3.simplify(x)) or (not z3.is_int_value(x) and m.p.implied(Xc(c0) == x) and m.p.implied(c0 % N != 0)):
            if m.p.branch(Yc(c0) % 2 == 0):
                return mk_point(m, c0)
            return mk_point(m, -c0)
    c = (x * x * x + 7) % P
    if not m.p.branch(QR(c)):
        return None
    a = m.p.fresh("lift")
    m.p.assume(z3.And(a >= 1, a < N, Xc(a) == x, Yc(a) % 2 == 0, (Yc(a) * Yc(a)) % P == c))
    register_scalar(m, a)
    return mk_point(m, a)


# ---------------------------------------------------------------------------- Fermat / Euler hooks
def fermat_hook(m, tb, e, mod, t):
    if mod in (N, P) and e == mod - 2:
        # Fermat (Lean: ZMod.pow_card_sub_one_eq_one): the product fact itself is used by zn_ring,
        # z3 only needs "inverse of 0 is 0, inverse of non-zero is non-zero"
        m.p.assume((tb % mod == 0) == (t == 0))
    if mod == P and e == (P + 1) // 4:
        # Euler's criterion for p = 3 (mod 4): r = a^((p+1)/4) satisfies r^2 = a iff a is a square
        # (Lean lemma sqrt_of_three_mod_four in verif/lean/Lemmas.lean)
        a = z3.simplify(tb % P)
        from .ops import nl_mul
        sq = nl_mul(t, t) if getattr(m, "nl_uf", False) else t * t
        m.p.assume(QR(a) == (z3.simplify(sq % P) == a))
        # square roots in the field F_P are unique up to sign (no zero divisors): if a is the
        # square of a known y-coordinate, the computed root is that coordinate or its negative
        for c in (m.p.__dict__.get("_curve_scalars", []) if getattr(m, "nl_uf", False) else []):
            y2 = z3.simplify(nl_mul(Yc(c), Yc(c)) % P)
            m.p.assume(z3.Implies(z3.And(a == y2, QR(a)), z3.Or(t == Yc(c), t == P - Yc(c))))


XORB = z3.Function("xor_bytes", BSort, BSort, BSort)


def i_xor_bytes(m, args, kwargs):
    """byte-wise xor of two equally long byte strings as an uninterpreted (commutative by
    argument order) function of its operands; concrete operands are computed"""
    a, b = args[0], args[1]
    if isinstance(a, bytes) and isinstance(b, bytes):
        return bytes(x ^ y for x, y in zip(a, b))
    if not (is_bytes(a) and is_bytes(b)) or not getattr(m, "nl_uf", False):
        return NotImplemented
    la, lb = m.length(a), m.length(b)
    if not (isinstance(la, int) and isinstance(lb, int) and la == lb):
        return NotImplemented
    ta, tb = sorted([bytes_to_B(a), bytes_to_B(b)], key=lambda t: t.sexpr())
    t = XORB(ta, tb)
    from .engine import id_key
    m.p.blen[id_key(t)] = la
    return SBytes([OB(t, la)]) if la else b""


def install(reg):
    pecc = _pecc()
    from buidl import helper as _helper
    from verif.specs import schnorr as _schnorr
    reg.intrinsics[_helper.xor_bytes] = i_xor_bytes
    reg.intrinsics[_schnorr.xor32] = i_xor_bytes
    reg.intrinsics[pecc.S256Point.__rmul__] = i_rmul
    reg.intrinsics[pecc.S256Point.__add__] = i_add
    reg.intrinsics[pecc.Point.__rmul__] = i_rmul
    reg.intrinsics[pecc.Point.__add__] = i_add
    from verif.specs import curve
    for name, h in (("pt", s_pt), ("mul_G", s_mul_G), ("mul", s_mul), ("add", s_add), ("is_inf", s_is_inf),
                    ("x_of", s_x_of), ("y_of", s_y_of), ("has_even_y", s_has_even_y), ("same", s_same),
                    ("on_curve", s_on_curve), ("lift_x", s_lift_x)):
        reg.intrinsics[getattr(curve, name)] = h
    reg.modpow_hooks.append(fermat_hook)
