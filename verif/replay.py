"""python3-vt -m verif.replay <replay.json> : re-run the failing input of a VIOLATION line against the
real code in /repo (or $VERIF_REPO).  exit 1 = the contract is violated by that input again,
exit 0 = not reproduced (e.g. a solver model that fixes an uninterpreted hash / curve value:
`no-failing-input-found` replays carry the obligation and the solver output instead of a real input)."""
import json
import os
import sys

REPO = os.environ.get("VERIF_REPO", "/repo")
ROOT = os.path.dirname(os.path.dirname(os.path.abspath(__file__)))
for p in (ROOT, REPO):
    if p not in sys.path:
        sys.path.insert(0, p)


def main():
    doc = json.load(open(sys.argv[1]))
    name = doc.get("obligation", "")
    print("property   :", doc.get("property"))
    print("obligation :", name)
    print("clause     :", doc.get("detail"))
    print("confirmed on real code when found:", doc.get("confirmed_on_real_code"))
    from verif.pyvc import verifier
    import verif.contracts  # noqa
    from verif import rt
    key = None
    if name.startswith("bounded:"):
        parts = name.split(":", 2)
        key = parts[2] if len(parts) > 2 else None
    else:
        for k in sorted(verifier.REG.contracts, key=len, reverse=True):
            if name.startswith(k + "/"):
                key = k
                break
    inputs = doc.get("inputs")
    if key not in verifier.REG.contracts or not isinstance(inputs, dict):
        print("no contract-level input to replay (bounded job with its own oracle, table, or model without inputs);")
        print("inputs:", json.dumps(inputs)[:2000])
        print("violated:", doc.get("violated"), "solver note:", doc.get("solver_note"))
        return 0
    c = verifier.REG.contracts[key]
    r = rt.run_concrete(c, verifier.unjson(inputs))
    print("replay     :", json.dumps(r, default=repr)[:2000])
    return 1 if r.get("status") == "violated" else 0


if __name__ == "__main__":
    sys.exit(main())
