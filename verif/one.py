"""debug driver: python3-vt -m verif.one <contract-name-substring> [timeout_ms]"""
import sys, os, time
REPO = os.environ.get("VERIF_REPO", "/repo")
sys.path.insert(0, REPO)
from verif.pyvc import verifier
import verif.contracts  # noqa
pat = sys.argv[1]
tmo = int(sys.argv[2]) if len(sys.argv) > 2 else 10000
for name, c in verifier.REG.contracts.items():
    if pat in name:
        t0 = time.time()
        res, st = verifier.verify_contract(c, timeout_ms=tmo)
        cnt = {}
        for r in res:
            cnt[r.status] = cnt.get(r.status, 0) + 1
        print(name, cnt, {k: (round(v, 2) if isinstance(v, float) else v) for k, v in st.items()})
        shown = 0
        for r in res:
            if r.status != "ok" and shown < int(os.environ.get("SHOW", "8")):
                shown += 1
                print("   ", r.name, r.status, "|", r.text, "|", (r.note or "")[-600:], "|", str(r.inputs)[:400])
