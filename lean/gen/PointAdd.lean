import Mathlib.AlgebraicGeometry.EllipticCurve.Affine.Point

open WeierstrassCurve WeierstrassCurve.Affine

variable {F : Type*} [Field F] [DecidableEq F]

set_option linter.unusedSectionVars false

/-- short Weierstrass curve y² = x³ + a x + b -/
def sw (a b : F) : Affine F := ⟨0, 0, 0, a, b⟩

theorem some_congr {W : Affine F} {x y x' y' : F} (h : W.Nonsingular x y) (hx : x = x') (hy : y = y') :
    ∃ h', Point.some x y h = Point.some x' y' h' := by
  subst hx hy; exact ⟨h, rfl⟩

theorem chord (a b x₁ y₁ x₂ y₂ : F) (h₁ : (sw a b).Nonsingular x₁ y₁) (h₂ : (sw a b).Nonsingular x₂ y₂)
    (hx : x₁ ≠ x₂) :
    ∃ h₃, Point.some _ _ h₁ + Point.some _ _ h₂ =
      Point.some (((y₂ - y₁) / (x₂ - x₁)) ^ 2 - x₁ - x₂)
        (((y₂ - y₁) / (x₂ - x₁)) * (x₁ - (((y₂ - y₁) / (x₂ - x₁)) ^ 2 - x₁ - x₂)) - y₁) h₃ := by
  have key := Point.add_of_X_ne (W := sw a b) (h₁ := h₁) (h₂ := h₂) hx
  have hs : (sw a b).slope x₁ x₂ y₁ y₂ = (y₂ - y₁) / (x₂ - x₁) := by
    rw [slope_of_X_ne hx]
    have : x₁ - x₂ ≠ 0 := sub_ne_zero.mpr hx
    have : x₂ - x₁ ≠ 0 := sub_ne_zero.mpr (Ne.symm hx)
    field_simp
    ring
  have hX : (sw a b).addX x₁ x₂ ((sw a b).slope x₁ x₂ y₁ y₂) = ((y₂ - y₁) / (x₂ - x₁)) ^ 2 - x₁ - x₂ := by
    rw [hs]; simp [addX, sw]
  have hY : (sw a b).addY x₁ x₂ y₁ ((sw a b).slope x₁ x₂ y₁ y₂) =
      ((y₂ - y₁) / (x₂ - x₁)) * (x₁ - (((y₂ - y₁) / (x₂ - x₁)) ^ 2 - x₁ - x₂)) - y₁ := by
    rw [hs]; simp [addY, negAddY, negY, addX, sw]; ring
  obtain ⟨h', e⟩ := some_congr (nonsingular_add h₁ h₂ (fun hxy => hx hxy.left)) hX hY
  exact ⟨h', key.trans e⟩

theorem tangent (a b x₁ y₁ x₂ y₂ : F) (h₁ : (sw a b).Nonsingular x₁ y₁) (h₂ : (sw a b).Nonsingular x₂ y₂)
    (hx : x₁ = x₂) (hy : y₁ = y₂) (hy0 : y₁ ≠ 0) (h2 : (2 : F) ≠ 0) :
    ∃ h₃, Point.some _ _ h₁ + Point.some _ _ h₂ =
      Point.some (((3 * x₁ ^ 2 + a) / (2 * y₁)) ^ 2 - 2 * x₁)
        (((3 * x₁ ^ 2 + a) / (2 * y₁)) * (x₁ - (((3 * x₁ ^ 2 + a) / (2 * y₁)) ^ 2 - 2 * x₁)) - y₁) h₃ := by
  subst hx hy
  have hne : y₁ ≠ (sw a b).negY x₁ y₁ := by
    simp [negY, sw]
    intro h
    apply hy0
    have : (2 : F) * y₁ = 0 := by linear_combination h
    rcases mul_eq_zero.mp this with h' | h'
    · exact absurd h' h2
    · exact h'
  have key := Point.add_self_of_Y_ne (W := sw a b) (h₁ := h₁) hne
  have hs : (sw a b).slope x₁ x₁ y₁ y₁ = (3 * x₁ ^ 2 + a) / (2 * y₁) := by
    rw [slope_of_Y_ne rfl hne]
    simp only [negY, sw]
    have e1 : y₁ - (-y₁ - 0 * x₁ - 0) = 2 * y₁ := by ring
    have e2 : 3 * x₁ ^ 2 + 2 * 0 * x₁ + a - 0 * y₁ = 3 * x₁ ^ 2 + a := by ring
    rw [e1, e2]
  have hX : (sw a b).addX x₁ x₁ ((sw a b).slope x₁ x₁ y₁ y₁) = ((3 * x₁ ^ 2 + a) / (2 * y₁)) ^ 2 - 2 * x₁ := by
    rw [hs]; simp [addX, sw]; ring
  have hY : (sw a b).addY x₁ x₁ y₁ ((sw a b).slope x₁ x₁ y₁ y₁) =
      ((3 * x₁ ^ 2 + a) / (2 * y₁)) * (x₁ - (((3 * x₁ ^ 2 + a) / (2 * y₁)) ^ 2 - 2 * x₁)) - y₁ := by
    rw [hs]; simp [addY, negAddY, negY, addX, sw]; ring
  obtain ⟨h', e⟩ := some_congr (nonsingular_add h₁ h₁ (fun hxy => hne hxy.right)) hX hY
  exact ⟨h', key.trans e⟩

theorem inverse (a b x₁ y₁ x₂ y₂ : F) (h₁ : (sw a b).Nonsingular x₁ y₁) (h₂ : (sw a b).Nonsingular x₂ y₂)
    (hx : x₁ = x₂) (hy : y₁ ≠ y₂) :
    Point.some _ _ h₁ + Point.some _ _ h₂ = 0 := by
  subst hx
  have e₁ := h₁.left
  have e₂ := h₂.left
  rw [equation_iff] at e₁ e₂
  simp [sw] at e₁ e₂
  have : (y₁ - y₂) * (y₁ + y₂) = 0 := by linear_combination e₁ - e₂
  rcases mul_eq_zero.mp this with h | h
  · exact absurd (sub_eq_zero.mp h) hy
  · apply Point.add_of_Y_eq rfl
    simp [negY, sw]
    linear_combination h

theorem double_two_torsion (a b x₁ y₁ : F) (h₁ : (sw a b).Nonsingular x₁ y₁) (hy0 : y₁ = 0) :
    Point.some _ _ h₁ + Point.some _ _ h₁ = 0 := by
  apply Point.add_of_Y_eq rfl
  simp [negY, sw, hy0]

-- ===== generated from /repo/buidl/pecc.py Point.__add__ =====
theorem path_0 (a b x₁ y₁ x₂ y₂ : F) (h₁ : (sw a b).Nonsingular x₁ y₁) (h₂ : (sw a b).Nonsingular x₂ y₂) (h2 : (2 : F) ≠ 0) (c1 : (x₁ = x₂)) (c2 : (¬ (y₁ = y₂))) :
    Point.some _ _ h₁ + Point.some _ _ h₂ = 0 := by
  have hx : x₁ = x₂ := by tauto
  have hy : y₁ ≠ y₂ := by tauto
  exact inverse a b x₁ y₁ x₂ y₂ h₁ h₂ hx hy

theorem path_1 (a b x₁ y₁ x₂ y₂ : F) (h₁ : (sw a b).Nonsingular x₁ y₁) (h₂ : (sw a b).Nonsingular x₂ y₂) (h2 : (2 : F) ≠ 0) (c1 : (x₁ = x₂)) (c2 : (¬ (¬ (y₁ = y₂)))) (c3 : (¬ (¬ (x₁ = x₂)))) (c4 : (y₁ = ((0 : F) * x₁))) :
    Point.some _ _ h₁ + Point.some _ _ h₂ = 0 := by
  have hx : x₁ = x₂ := by tauto
  have hy : y₁ = y₂ := by tauto
  subst hx hy
  have hy0 : y₁ = 0 := by
    have : y₁ = (0 : F) * x₁ := by tauto
    rw [this]; ring
  exact double_two_torsion a b x₁ y₁ h₁ hy0

theorem path_2 (a b x₁ y₁ x₂ y₂ : F) (h₁ : (sw a b).Nonsingular x₁ y₁) (h₂ : (sw a b).Nonsingular x₂ y₂) (h2 : (2 : F) ≠ 0) (c1 : (x₁ = x₂)) (c2 : (¬ (¬ (y₁ = y₂)))) (c3 : (¬ (¬ (x₁ = x₂)))) (c4 : (¬ (y₁ = ((0 : F) * x₁)))) (c5 : (¬ ((((((((3 : F) * (x₁ ^ 2)) + a) / ((2 : F) * y₁)) * (x₁ - ((((((3 : F) * (x₁ ^ 2)) + a) / ((2 : F) * y₁)) ^ 2) - ((2 : F) * x₁)))) - y₁) ^ 2) = (((((((((3 : F) * (x₁ ^ 2)) + a) / ((2 : F) * y₁)) ^ 2) - ((2 : F) * x₁)) ^ 3) + (a * ((((((3 : F) * (x₁ ^ 2)) + a) / ((2 : F) * y₁)) ^ 2) - ((2 : F) * x₁)))) + b)))) :
    False := by
  have hx : x₁ = x₂ := by tauto
  have hy : y₁ = y₂ := by tauto
  have hy0 : y₁ ≠ 0 := by
    intro h
    have : y₁ = (0 : F) * x₁ := by rw [h]; ring
    tauto
  obtain ⟨h₃, e⟩ := tangent a b x₁ y₁ x₂ y₂ h₁ h₂ hx hy hy0 h2
  have eq := h₃.left
  rw [equation_iff] at eq
  simp only [sw] at eq
  have bad : (¬ ((((((((3 : F) * (x₁ ^ 2)) + a) / ((2 : F) * y₁)) * (x₁ - ((((((3 : F) * (x₁ ^ 2)) + a) / ((2 : F) * y₁)) ^ 2) - ((2 : F) * x₁)))) - y₁) ^ 2) = (((((((((3 : F) * (x₁ ^ 2)) + a) / ((2 : F) * y₁)) ^ 2) - ((2 : F) * x₁)) ^ 3) + (a * ((((((3 : F) * (x₁ ^ 2)) + a) / ((2 : F) * y₁)) ^ 2) - ((2 : F) * x₁)))) + b))) := by tauto
  apply bad
  linear_combination eq

theorem path_3 (a b x₁ y₁ x₂ y₂ : F) (h₁ : (sw a b).Nonsingular x₁ y₁) (h₂ : (sw a b).Nonsingular x₂ y₂) (h2 : (2 : F) ≠ 0) (c1 : (x₁ = x₂)) (c2 : (¬ (¬ (y₁ = y₂)))) (c3 : (¬ (¬ (x₁ = x₂)))) (c4 : (¬ (y₁ = ((0 : F) * x₁)))) (c5 : (¬ (¬ ((((((((3 : F) * (x₁ ^ 2)) + a) / ((2 : F) * y₁)) * (x₁ - ((((((3 : F) * (x₁ ^ 2)) + a) / ((2 : F) * y₁)) ^ 2) - ((2 : F) * x₁)))) - y₁) ^ 2) = (((((((((3 : F) * (x₁ ^ 2)) + a) / ((2 : F) * y₁)) ^ 2) - ((2 : F) * x₁)) ^ 3) + (a * ((((((3 : F) * (x₁ ^ 2)) + a) / ((2 : F) * y₁)) ^ 2) - ((2 : F) * x₁)))) + b))))) :
    ∃ h₃, Point.some _ _ h₁ + Point.some _ _ h₂ = Point.some ((((((3 : F) * (x₁ ^ 2)) + a) / ((2 : F) * y₁)) ^ 2) - ((2 : F) * x₁)) ((((((3 : F) * (x₁ ^ 2)) + a) / ((2 : F) * y₁)) * (x₁ - ((((((3 : F) * (x₁ ^ 2)) + a) / ((2 : F) * y₁)) ^ 2) - ((2 : F) * x₁)))) - y₁) h₃ := by
  have hx : x₁ = x₂ := by tauto
  have hy : y₁ = y₂ := by tauto
  have hy0 : y₁ ≠ 0 := by
    intro h
    have : y₁ = (0 : F) * x₁ := by rw [h]; ring
    tauto
  obtain ⟨h₃, e⟩ := tangent a b x₁ y₁ x₂ y₂ h₁ h₂ hx hy hy0 h2
  obtain ⟨h', e'⟩ := some_congr h₃ (show _ = ((((((3 : F) * (x₁ ^ 2)) + a) / ((2 : F) * y₁)) ^ 2) - ((2 : F) * x₁)) by ring) (show _ = ((((((3 : F) * (x₁ ^ 2)) + a) / ((2 : F) * y₁)) * (x₁ - ((((((3 : F) * (x₁ ^ 2)) + a) / ((2 : F) * y₁)) ^ 2) - ((2 : F) * x₁)))) - y₁) by ring)
  exact ⟨h', e.trans e'⟩

theorem path_4 (a b x₁ y₁ x₂ y₂ : F) (h₁ : (sw a b).Nonsingular x₁ y₁) (h₂ : (sw a b).Nonsingular x₂ y₂) (h2 : (2 : F) ≠ 0) (c1 : (¬ (x₁ = x₂))) (c2 : (¬ (x₁ = x₂))) (c3 : (¬ ((((((y₂ - y₁) / (x₂ - x₁)) * (x₁ - (((((y₂ - y₁) / (x₂ - x₁)) ^ 2) - x₁) - x₂))) - y₁) ^ 2) = ((((((((y₂ - y₁) / (x₂ - x₁)) ^ 2) - x₁) - x₂) ^ 3) + (a * (((((y₂ - y₁) / (x₂ - x₁)) ^ 2) - x₁) - x₂))) + b)))) :
    False := by
  have hx : x₁ ≠ x₂ := by tauto
  obtain ⟨h₃, e⟩ := chord a b x₁ y₁ x₂ y₂ h₁ h₂ hx
  have eq := h₃.left
  rw [equation_iff] at eq
  simp only [sw] at eq
  have bad : (¬ ((((((y₂ - y₁) / (x₂ - x₁)) * (x₁ - (((((y₂ - y₁) / (x₂ - x₁)) ^ 2) - x₁) - x₂))) - y₁) ^ 2) = ((((((((y₂ - y₁) / (x₂ - x₁)) ^ 2) - x₁) - x₂) ^ 3) + (a * (((((y₂ - y₁) / (x₂ - x₁)) ^ 2) - x₁) - x₂))) + b))) := by tauto
  apply bad
  linear_combination eq

theorem path_5 (a b x₁ y₁ x₂ y₂ : F) (h₁ : (sw a b).Nonsingular x₁ y₁) (h₂ : (sw a b).Nonsingular x₂ y₂) (h2 : (2 : F) ≠ 0) (c1 : (¬ (x₁ = x₂))) (c2 : (¬ (x₁ = x₂))) (c3 : (¬ (¬ ((((((y₂ - y₁) / (x₂ - x₁)) * (x₁ - (((((y₂ - y₁) / (x₂ - x₁)) ^ 2) - x₁) - x₂))) - y₁) ^ 2) = ((((((((y₂ - y₁) / (x₂ - x₁)) ^ 2) - x₁) - x₂) ^ 3) + (a * (((((y₂ - y₁) / (x₂ - x₁)) ^ 2) - x₁) - x₂))) + b))))) :
    ∃ h₃, Point.some _ _ h₁ + Point.some _ _ h₂ = Point.some (((((y₂ - y₁) / (x₂ - x₁)) ^ 2) - x₁) - x₂) ((((y₂ - y₁) / (x₂ - x₁)) * (x₁ - (((((y₂ - y₁) / (x₂ - x₁)) ^ 2) - x₁) - x₂))) - y₁) h₃ := by
  have hx : x₁ ≠ x₂ := by tauto
  obtain ⟨h₃, e⟩ := chord a b x₁ y₁ x₂ y₂ h₁ h₂ hx
  obtain ⟨h', e'⟩ := some_congr h₃ (show _ = (((((y₂ - y₁) / (x₂ - x₁)) ^ 2) - x₁) - x₂) by ring) (show _ = ((((y₂ - y₁) / (x₂ - x₁)) * (x₁ - (((((y₂ - y₁) / (x₂ - x₁)) ^ 2) - x₁) - x₂))) - y₁) by ring)
  exact ⟨h', e.trans e'⟩

