import Mathlib.FieldTheory.Finite.Basic
import Mathlib.NumberTheory.LegendreSymbol.Basic

/-! Static lemmas the contracts of C01/C02/C03/C08/C12/C13 lean on (see verif/pyvc/theories.py):
* Fermat inverse: `pow(x, p-2, p)` is the inverse of a non-zero residue modulo a prime;
* Euler criterion for `p ≡ 3 (mod 4)`: `r = a^((p+1)/4)` satisfies `r^2 = a` iff `a` is a square;
* square roots in a field are unique up to sign. -/

open ZMod

theorem fermat_inverse (p : ℕ) [hp : Fact p.Prime] (a : ZMod p) (ha : a ≠ 0) : a * a ^ (p - 2) = 1 := by
  have h1 : a ^ (p - 1) = 1 := ZMod.pow_card_sub_one_eq_one ha
  have h2 : p - 1 = (p - 2) + 1 := by have := hp.out.two_le; omega
  rw [h2, pow_succ] at h1
  rw [mul_comm]; exact h1

theorem inverse_zero (p : ℕ) [Fact p.Prime] (hp2 : 2 < p) : (0 : ZMod p) ^ (p - 2) = 0 := by
  apply zero_pow; omega

theorem sqrt_three_mod_four (p : ℕ) [hp : Fact p.Prime] (h34 : p % 4 = 3) (a : ZMod p) :
    (a ^ ((p + 1) / 4)) ^ 2 = a ↔ IsSquare a := by
  constructor
  · intro h; exact ⟨a ^ ((p + 1) / 4), by rw [← sq]; exact h.symm⟩
  · rintro ⟨y, rfl⟩
    by_cases hy : y = 0
    · subst hy
      have : (p + 1) / 4 ≠ 0 := by omega
      simp [this]
    · have hf : y ^ (p - 1) = 1 := ZMod.pow_card_sub_one_eq_one hy
      have e : 2 * ((p + 1) / 4) * 2 = (p - 1) + 2 := by omega
      calc ((y * y) ^ ((p + 1) / 4)) ^ 2 = y ^ (2 * ((p + 1) / 4) * 2) := by ring
        _ = y ^ ((p - 1) + 2) := by rw [e]
        _ = y ^ (p - 1) * y ^ 2 := by rw [pow_add]
        _ = y * y := by rw [hf]; ring

theorem sqrt_unique_up_to_sign {F : Type*} [Field F] (x y : F) (h : x ^ 2 = y ^ 2) : x = y ∨ x = -y :=
  sq_eq_sq_iff_eq_or_eq_neg.mp h

/-- secp256k1 field prime is 3 mod 4 and the curve order differs from it (sanity of the constants used) -/
theorem secp_p_mod_four : (2 ^ 256 - 2 ^ 32 - 977 : ℕ) % 4 = 3 := by norm_num

/-- double-and-add step used by the loop invariant of `Point.__rmul__` (C03.4) -/
theorem nsmul_binary_step {G : Type*} [AddCommMonoid G] (c : ℕ) (Q : G) :
    c • Q = (c / 2) • (Q + Q) + (c % 2) • Q := by
  have h : c = 2 * (c / 2) + c % 2 := (Nat.div_add_mod c 2).symm
  calc c • Q = (2 * (c / 2) + c % 2) • Q := by rw [← h]
    _ = (2 * (c / 2)) • Q + (c % 2) • Q := add_nsmul Q _ _
    _ = (c / 2) • (2 • Q) + (c % 2) • Q := by rw [mul_comm, mul_nsmul']
    _ = (c / 2) • (Q + Q) + (c % 2) • Q := by rw [two_nsmul]
